#!/bin/bash
# Run every seeded defect (/verif/seeded/*/patch.diff) against the quick check
# of the property it breaks; print one line each. A patch that no longer applies
# to /repo's HEAD (because a later fix changed the code it modified) is applied
# in a scratch worktree at the commit it was written for (meta.json base_commit)
# and the check is pointed there with SIM_REPO.
# usage: tools/seeded.sh [name-filter] [scale]
cd /verif || exit 2
filter=${1:-}; scale=${2:-1}
./check setup > /dev/null || exit 2
git -C /repo diff --quiet || { echo "repo dirty"; exit 2; }
for d in seeded/*/; do
  name=$(basename $d)
  [[ -n "$filter" && "$name" != *$filter* ]] && continue
  prop=$(python3 -c "import json;print(json.load(open('$d/meta.json'))['property'])")
  base=$(python3 -c "import json;print(json.load(open('$d/meta.json')).get('base_commit',''))")
  start=$(date +%s)
  if git -C /repo apply --check /verif/$d/patch.diff 2>/dev/null; then
    git -C /repo apply /verif/$d/patch.diff
    ./bin/simcheck run --prop $prop --tier quick --scale $scale --nomin > /tmp/seeded-$name.log 2>&1
    code=$?
    git -C /repo checkout -q -- . ; git -C /repo clean -fdq
    where=HEAD
  else
    wt=/tmp/seedwt-$$
    git -C /repo worktree add -q $wt $base || { echo "$name: cannot make worktree at $base"; continue; }
    git -C $wt apply /verif/$d/patch.diff || { echo "$name: patch does not apply at $base"; git -C /repo worktree remove --force $wt; continue; }
    SIM_REPO=$wt ./bin/simcheck run --prop $prop --tier quick --scale $scale --nomin > /tmp/seeded-$name.log 2>&1
    code=$?
    git -C /repo worktree remove --force $wt
    where="base $base"
  fi
  v=$(grep -a -m1 "^violation" /tmp/seeded-$name.log | cut -c1-160)
  echo "$name prop=$prop ($where) exit=$code $(( $(date +%s) - start ))s :: $v"
done
./bin/simcheck build > /dev/null   # leave /verif/build/ergo built from /repo again
