#!/bin/bash
# Run every seeded defect (/verif/seeded/*/patch.diff) against the quick check
# of the property it breaks; print one line each. /repo itself is never touched:
# the patch is applied in a scratch worktree (at /repo's HEAD, or - when a later
# fix changed the code the patch modifies - at the commit it was written for)
# and the check is pointed there with SIM_REPO.
# usage: tools/seeded.sh [name-filter] [scale]
cd /verif || exit 2
filter=${1:-}; scale=${2:-1}
./check setup > /dev/null || exit 2
for d in seeded/*/; do
  name=$(basename $d)
  [[ -n "$filter" && "$name" != *$filter* ]] && continue
  if python3 -c "import json,sys;sys.exit(0 if json.load(open('$d/meta.json')).get('retired') else 1)"; then echo "$name: retired (see meta.json)"; continue; fi
  prop=$(python3 -c "import json;print(json.load(open('$d/meta.json'))['property'])")
  start=$(date +%s)
  wt=/tmp/seedwt-$$-$name
  where=""
  for base in $(python3 -c "import json;m=json.load(open('$d/meta.json'));print(m.get('base_commit','') if m.get('pin_base') else '')") HEAD 864492d 9004744; do
    git -C /repo worktree add -q --detach $wt $base 2>/dev/null || continue
    pf=/verif/$d/patch.diff; [ "$base" = HEAD ] && [ -f /verif/$d/patch_head.diff ] && pf=/verif/$d/patch_head.diff
    if git -C $wt apply --3way $pf >/dev/null 2>&1 && ! git -C $wt diff --name-only --diff-filter=U | grep -q .; then where=$base; break; fi
    git -C /repo worktree remove --force $wt
  done
  if [ -z "$where" ]; then echo "$name: patch applies to no known commit"; continue; fi
  SIM_REPO=$wt ./bin/simcheck run --prop $prop --tier quick --scale $scale --nomin --builddir /tmp/seedbuild-$$ > /tmp/seeded-$name.log 2>&1
  code=$?
  git -C /repo worktree remove --force $wt
  v=$(grep -a -m1 "^violation" /tmp/seeded-$name.log | cut -c1-160)
  echo "$name prop=$prop (at $where) exit=$code $(( $(date +%s) - start ))s :: $v"
done
rm -rf /tmp/seedbuild-$$
