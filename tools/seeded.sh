#!/bin/bash
# Run every seeded defect (/verif/seeded/*/patch.diff) and sanity mutant against
# the quick check of the property it breaks; print one line each.
# usage: tools/seeded.sh [name-filter] [scale]
cd /verif || exit 2
filter=${1:-}; scale=${2:-1}
./check setup > /dev/null || exit 2
git -C /repo diff --quiet || { echo "repo dirty"; exit 2; }
for d in seeded/*/; do
  name=$(basename $d)
  [[ -n "$filter" && "$name" != *$filter* ]] && continue
  prop=$(python3 -c "import json;print(json.load(open('$d/meta.json'))['property'])")
  git -C /repo apply /verif/$d/patch.diff || { echo "$name: patch does not apply"; continue; }
  start=$(date +%s)
  ./bin/simcheck run --prop $prop --tier quick --scale $scale --nomin > /tmp/seeded-$name.log 2>&1
  code=$?
  git -C /repo checkout -q -- . ; git -C /repo clean -fdq
  v=$(grep -m1 "^violation" /tmp/seeded-$name.log | cut -c1-160)
  echo "$name prop=$prop exit=$code $(( $(date +%s) - start ))s :: $v"
done
