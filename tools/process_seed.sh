#!/bin/bash
# process_seed.sh <out-suffix> <name> <property> <needs...>: confirm, file and test one independently written breaking change
sfx=$1; name=$2; prop=$3; shift 3
out=/tmp/out-$sfx
cd /verif
pkg=""
if ls $out/*_test.go >/dev/null 2>&1 && [ ! -f $out/demo.sh ]; then
  if grep -q "^package main" $out/*_test.go; then pkg=cmd/ergo; else pkg=internal/ergo; fi
fi
r=$(PKG=$pkg tools/confirm_seed.sh $out 2>&1 | cut -c1-100 | tail -4 | tr '\n' ' ')
echo "confirm: $r"
case "$r" in
  *"without-change] exit=0"*"build with change] exit=0"*"passed 389 baseline_missing []"*"with-change] exit=1"*) ;;
  *) echo "NOT CONFIRMED - not filed"; exit 1;;
esac
tools/addseed.py $out $name $prop "$@" >/dev/null
python3 - <<PY
import json,subprocess
f='/verif/seeded/$name/meta.json'; m=json.load(open(f))
m['base_commit']=subprocess.check_output(['git','-C','/tmp/wt-$sfx','rev-parse','--short','HEAD']).decode().strip()
json.dump(m,open(f,'w'),indent=1)
PY
tools/seeded.sh $name | cut -c1-220
