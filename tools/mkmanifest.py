#!/usr/bin/env python3
"""Generate /verif/MANIFEST.json from the table below (kept in one place so the
manifest is always valid and in step with the checks that exist)."""
import json, sys

SIM = "deterministic simulation with fault injection: real ergo processes parked at every .ergo system call by an interposer in a build-time overlay of Go's syscall/time/crypto/rand; seeded scheduler, simulated clock and entropy, injected crashes and I/O faults; reference-model oracle"

claimed = {
 "C01": ("exploration", "conc", "seeded search over schedules of concurrent claimers (random, sticky, and every single-preemption point of two claimers per sample); porcupine linearizability against the claim rule (oldest ready at the linearisation point) plus direct checks: no double hand-out, winner is doing and holds the claim, only `lock busy` failures; writers that change which task is oldest race the claimers, every command that wrote is pinned to its commit instant; EIO/EMFILE on a read or open of the log before the first write under seeded and serial schedules, 1 in 4 samples with a log of 0.3-2 MB",
         "deterministic simulation: seeded schedule search + single-preemption sweeps, porcupine linearizability vs reference model"),
 "C02": ("exploration", "conc", "seeded search over schedules of batches of mutating commands (conflicting pairs over-weighted, short writes on); porcupine: successful commands have an order consistent with real time that explains every reply and the final observation; failed commands (lock busy included) wrote nothing; log stays whole lines and only grows; a blocking lock wait is reported by the interposer; nine conflict families incl. prune vs writers that make a target ineligible; 1 in 5 samples start from a torn tail (1 in 3 of those longer than a block); errno plans and two serial executions per sample",
         "deterministic simulation: seeded schedule search + single-preemption sweeps, porcupine linearizability vs reference model, log-byte accounting"),
 "C03": ("fault_enumeration", "crash", "per sampled (pre-state, command): every system-call boundary is a kill point, log writes are torn at sampled byte offsets (all offsets for short lines in thorough), ENOSPC/EIO/EINTR are returned from the fallible calls; afterwards all reads must succeed, untouched items are unchanged, acknowledged work is intact, and follow-up mutations must succeed, take effect and leave the store readable",
         "deterministic simulation: complete crash-point / torn-write / errno sweep per sampled command, old-or-prefix oracle, post-crash usability runs"),
 "C04": ("fault_enumeration", "crash", "per sampled (pre-state, multi-event command): a kill before every system call and before the reply; the observation afterwards must equal exactly the state before or exactly the state after (taken from an uninterrupted twin run with the same clock and entropy)",
         "deterministic simulation: complete kill-point sweep per sampled multi-event command, strict before/after equality vs an uninterrupted twin"),
 "C06": ("exploration", "seq", "seeded command histories over every reachable (state, claimant) pair x request shape x input mode; accept/reject must follow the documented transition table and claim rule (reference model), a rejected request leaves the task untouched, and the claim invariant is re-checked on every observation of every run",
         "deterministic simulation: seeded histories, reference-model refinement per step + invariant monitoring"),
 "C07": ("exploration", "seq+conc", "seeded sequences of sequence/sequence rm/prune/plan/compact judged against the model's edge set (self, cross-kind, unknown, pruned, would-be cycle; rm removes exactly one edge; deps/rdeps mirror), plus concurrent cycle-closing sequence batches under schedule search with the acyclicity invariant and linearizability",
         "deterministic simulation: seeded histories vs reference model + schedule search over concurrent edge insertions"),
 "C08": ("exploration", "seq", "every observation of every run is re-judged by an independent implementation of the manual's two-level readiness/blockedness definition; list --ready must equal that set; claim must return a task of minimal creation time (ties allowed when the simulated clock ties) and no_ready exactly when the set is empty; clock profiles with ties, leaps and backward steps",
         "deterministic simulation: seeded histories with simulated clock profiles, independent readiness predicate on every observation"),
 "C09": ("exploration", "seq", "seeded histories with prune (dry and applied) against the policy set; afterwards commands aimed at pruned ids must fail, nothing resurrects them (compact, reopen, new items), and forced entropy makes a new id collide with a pruned one",
         "deterministic simulation: seeded histories vs reference model, entropy seam forces id collisions"),
 "C10": ("exploration", "seq", "seeded histories biased towards every failure cause at every position of multi-part commands; after any non-zero exit the observation and the log bytes must equal their values before the command",
         "deterministic simulation: seeded failing commands, observation and log-byte equality"),
 "C11": ("exploration", "seq", "seeded plan documents (DAGs, non-DAGs, duplicates, dangling/self refs, blank/missing fields, Unicode) applied to seeded stores: success creates exactly the described graph, reply equals the following read, bystanders unchanged, log only extended; invalid payloads are rejected with nothing written",
         "deterministic simulation: seeded plan documents vs reference model"),
 "C13": ("exploration", "conc", "readers (list/show, JSON and human) run beside writers of every kind under schedule search and under every single-preemption point of both reader and writer, with short writes on; the reader must exit 0 and its output must be byte-equal to the same command run on one of the whole-line states the log passed through during the reader's lifetime (an unterminated fragment is not content; line prefixes of an append in progress count as states); 1 in 3 samples start from a torn tail that the first writer repairs; Unicode and dense multi-byte text with short writes",
         "deterministic simulation: single-preemption sweeps of readers vs writers, output compared with snapshots of states the log passed through"),
 "C14": ("exploration", "seq", "seeded new/set/plan/prune/compact histories with epic arguments drawn from {live epic, task, unknown, pruned, empty}; accept/reject per the model and on every observation each task's epic is empty or a live epic",
         "deterministic simulation: seeded histories vs reference model + epic-reference invariant"),
 "C15": ("exploration", "seq", "on every observation: todo work with nothing doing/blocked/error implies a non-empty ready set; at the end of each run a bounded drain (finish everything held, then claim/done) must empty the todo set within 2*tasks+2 commands",
         "deterministic simulation: progress invariant on every observation + bounded-liveness drain"),
 "C16": ("exploration", "seq", "every command of seeded histories runs with --json: success writes exactly one JSON value, failure exits non-zero with stderr text and at most one error object; every reported fact (ids, state, claimant, edges, pruned ids, timestamps) is compared with the immediately following observation",
         "deterministic simulation: seeded histories, reply-vs-next-read comparison"),
 "C17": ("exploration", "seq", "seeded Unicode/control/HTML-significant/huge text through JSON stdin, --body-stdin and flags, in new/set/plan, with stdin delivered in chunks and log lines written/read through short I/O; show --json must return it verbatim (documented title trimming excepted), also after compaction",
         "deterministic simulation: seeded text round trips under chunked stdin and short reads/writes"),
 "C20": ("exploration", "seq", "seeded result attachments over path classes (absolute, .., .ergo, directories, missing, symlinks, Unicode) and summaries; accept rule, sha256 of the bytes at attach time, file URL, newest-first order and immutability under later commands and compaction",
         "deterministic simulation: seeded attachments vs reference model under short reads"),
}

claimed.update({
 "C05": ("exploration", "fork", "seeded histories with differential fork points: observation before = after compact (all fields incl. claimed_at/created_at/updated_at, results, ready/blocked), second compact changes nothing (observation and event count), and the same generated continuation plus a full claim drain - run with identical simulated clock and entropy on the uncompacted and the compacted store - gives byte-identical replies and equal observations; histories include legacy untitled items, torn tails, clock ties and backward clock steps",
         "deterministic simulation: differential forks of the world with identical clock/entropy streams, observation equality"),
 "C12": ("exploration", "corrupt+seq", "storage-fault injection on the log itself (34 damage kinds, singly and combined, at seeded positions) followed by all 26 commands per damaged log under the simulator: termination by watchdog, exit 0/1, no panic, explained failures naming file:line for non-JSON lines, repeat-read determinism across processes, syscall-level read purity, and event-list prefix preservation for successful mutations; plus the same purity/determinism/prefix oracles on valid histories",
         "deterministic simulation: injected log corruption, syscall-trace read purity, cross-process determinism, history-prefix oracle"),
 "C18": ("exploration", "layout", "seeded sequential histories in which every command draws a fresh start directory and --dir spelling, over store layouts {plans-only, legacy events-only, both with a decoy, lock-less, shadowed by a decoy store in the enclosing directory}, with init and lock removal at seeded points; the sequential refinement oracle is the property (a write through one spelling is visible through all others, where names the project's .ergo, init changes nothing, a read through any spelling is byte-equal to the read from the project root); spellings include ., relative subdirectories, the .ergo directory with and without trailing slash, start directories reached through symbolic links; results are attached so that file URLs are compared too",
         "deterministic simulation: seeded configurations (layout x start dir x --dir spelling), reference-model refinement"),
})

_conc_note = " Plus a concurrent mode: the property's own conflict scenario (one batch per sample) under seeded schedules, complete single-preemption sweeps and a two-preemption sweep with a competitor parked holding the lock, judged by porcupine linearizability and the standing invariants."
for _k in ("C06", "C08", "C09", "C10", "C11", "C14", "C15", "C16", "C20"):
    _l, _e, _t, _tech = claimed[_k]
    claimed[_k] = (_l, _e + "+conc", _t + _conc_note, _tech + "; seeded schedule search + preemption sweeps for the concurrent mode")

pending = {
}
_old_pending = {
 "C05": "check not built yet (differential compact forks; DESIGN.md section 8)",
 "C12": "check not built yet (log corruption faults; DESIGN.md section 8)",
 "C18": "check not built yet (layout configurations; DESIGN.md section 8)",
}

na = {
 "C19": "the rendered rows are a pure function of (replayed graph, list flags, terminal width): no schedule, clock, fault, crash point or interleaving enters the renderer, so deterministic simulation with fault injection has nothing to decide here (DESIGN.md section 9)",
}

def main():
    override = {}
    try:
        override = json.load(open('/verif/tools/manifest_extra.json'))
    except Exception:
        pass
    for k, v in override.get('claimed', {}).items():
        claimed[k] = tuple(v)
        pending.pop(k, None)
    checks = []
    for pid in sorted(claimed):
        level, eng, text, tech = claimed[pid]
        checks.append({
            "property_id": pid,
            "quick_cmd": f"./check {pid} quick",
            "thorough_cmd": f"./check {pid} thorough",
            "evidence_file": f"/verif/evidence/{pid}.json",
            "replay_cmd_template": "./check replay {path}",
            "engine": "ergosim",
            "level_claimed": {"category": level, "text": text, "design_ref": "DESIGN.md section 8 (" + pid + ")"},
            "level_note": "seeded sampling, not proof; crash = process death (completed writes survive, no power-loss model); a system call on .ergo is the atom of interleaving; oracle = reference model written from help/quickstart/spec, permissive where they are silent; trusted: Go toolchain, kernel tmpfs/flock semantics, the interposer overlay",
            "technique": tech,
        })
    m = {
        "version": 1,
        "setup_cmd": "./check setup",
        "hooks": {
            "guard": "no source hook in /repo: the interposer lives in a build-time `go build -overlay` copy of the Go standard library (syscall wrappers, time.Now, crypto/rand.Read) used only for the simulated ergo binary, and is dormant unless ERGOSIM_CTL is in the environment",
            "enable": "simcheck build: go build -overlay=/verif/build/overlay/overlay.json -o /verif/build/ergo ./cmd/ergo (from /repo's current working tree, with the toolchain go.mod names)",
            "baseline_off_cmd": "cd /repo && go test -mod=mod -vet=off -count=1 -timeout 25m ./...",
            "source_commits": [],
            "add_only": True,
        },
        "engines": [{
            "name": "ergosim",
            "path": "/verif/sim (controller, model, oracles) + /verif/simkernel (interposer)",
            "serves_properties": sorted(claimed),
            "kind_free_text": SIM,
        }],
        "checks": checks,
        "notes": "Unguarded `fix:` commits in /repo repair genuine defects found by these checks (see known_findings.json and DESIGN.md section 13). ./check exit codes: 0 held, 1 VIOLATION, 2 harness/build trouble.",
        "not_applicable": [{"property_id": k, "reason": v} for k, v in sorted({**pending, **na}.items())],
    }
    json.dump(m, open('/verif/MANIFEST.json', 'w'), indent=1)
    print("claimed", len(checks), "not_applicable", len(m["not_applicable"]))

main()
