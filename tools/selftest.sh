#!/bin/bash
# Determinism self-test: the same seeds, run in many OS processes, with the
# controller under GOMAXPROCS 1/4/16 and the simulated ergo processes under
# GOMAXPROCS 1 and 16, must give identical trace digests (and generated ==
# replayed). Usage: tools/selftest.sh [seeds-per-mode] [processes]
cd /verif || exit 2
./check setup >/dev/null || exit 2
n=${1:-4}; procs=${2:-30}
out=$(mktemp -d /dev/shm/selftest.XXXX)
i=0
for gm in 1 4 16; do for eg in 1 16; do for rep in $(seq 1 $((procs/6))); do
  i=$((i+1))
  ( GOMAXPROCS=$gm SIM_ERGO_GOMAXPROCS=$eg ./bin/simcheck digests -n $n > $out/$i.txt 2>&1 ) &
  if (( i % 6 == 0 )); then wait; fi
done; done; done; wait
ref=$out/1.txt
bad=0
for f in $out/*.txt; do
  if ! diff -q $ref $f >/dev/null; then bad=$((bad+1)); echo "DIFF $f"; diff $ref $f | head -5; fi
done
echo "processes=$i lines=$(wc -l < $ref) mismatching_processes=$bad replay_mismatches=$(cat $out/*.txt | grep -c MISMATCH) harness=$(cat $out/*.txt | grep -c HARNESS)"
[ $bad -eq 0 ] && rm -rf $out
[ $bad -eq 0 ]
