#!/bin/bash
# usage: mutant.sh <patch> <prop> [scale]  — apply patch to /repo, run the quick check, revert.
set -u
patch=$1; prop=$2; scale=${3:-1}
cd /repo || exit 2
git diff --quiet || { echo "repo dirty"; exit 2; }
git apply "$patch" || { echo "patch does not apply"; exit 2; }
/verif/bin/simcheck run --prop "$prop" --tier quick --scale "$scale" --nomin > /tmp/vlog/mut.log 2>&1
code=$?
git checkout -q -- . ; git clean -fdq
echo "$(basename $patch) $prop exit=$code violations=$(grep -c ^VIOLATION /tmp/vlog/mut.log)"
grep -h "^violation\|^HARNESS\|^note" /tmp/vlog/mut.log | cut -c1-${CUT:-300} | head -${HEAD:-3}
