#!/bin/bash
# Detection power: every seeded defect under several VERIF_SEED values (quick tier).
# usage: tools/power.sh seed...   -> one line per defect: caught k/n
cd "$(dirname "$0")/.." || exit 2
here=$(pwd)
./check setup > /dev/null || exit 2
for d in seeded/*/; do
  name=$(basename $d)
  [[ -n "${POWER_FILTER:-}" && ! "$name" =~ $POWER_FILTER ]] && continue
  if python3 -c "import json,sys;sys.exit(0 if json.load(open('$d/meta.json')).get('retired') else 1)"; then echo "$name: retired (see meta.json)"; continue; fi
  prop=$(python3 -c "import json;print(json.load(open('$d/meta.json'))['property'])")
  wt=/tmp/powerwt-$$-$name; where=""
  for base in $(python3 -c "import json;m=json.load(open('$d/meta.json'));print(m.get('base_commit','') if m.get('pin_base') else '')") HEAD 864492d 9004744; do
    git -C /repo worktree add -q --detach $wt $base 2>/dev/null || continue
    pf=$here/$d/patch.diff; [ "$base" = HEAD ] && [ -f $here/$d/patch_head.diff ] && pf=$here/$d/patch_head.diff
    if git -C $wt apply --3way $pf >/dev/null 2>&1 && ! git -C $wt diff --name-only --diff-filter=U | grep -q .; then where=$base; break; fi
    git -C /repo worktree remove --force $wt
  done
  [ -z "$where" ] && { echo "$name: patch applies nowhere"; continue; }
  k=0; n=0; miss=""
  for s in "$@"; do
    VERIF_SEED=$s SIM_REPO=$wt ./bin/simcheck run --prop $prop --tier quick --nomin --builddir /tmp/powerbuild-$$ > /tmp/power-$name-$s.log 2>&1
    code=$?; n=$((n+1)); if [ $code -eq 1 ]; then k=$((k+1)); rm -f /tmp/power-$name-$s.log; else miss="$miss $s(exit=$code)"; fi
  done
  git -C /repo worktree remove --force $wt
  echo "$name prop=$prop caught $k/$n$([ -n "$miss" ] && echo " missed with seeds:$miss")"
done
rm -rf /tmp/powerbuild-$$
