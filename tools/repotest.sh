#!/bin/bash
# Run the repository's own suite (guard off: plain build) and compare with the 389-test baseline.
cd /repo && GOFLAGS=-mod=mod go test -json -vet=off -count=1 -timeout 25m ./... 2>/dev/null | python3 -c "
import sys,json
base=set(json.load(open('/root/.vp/BASELINE.json'))['stable_pass'])
res={}
for l in sys.stdin:
    try: e=json.loads(l)
    except: continue
    if e.get('Test') and e.get('Action') in('pass','fail','skip'):
        res[e['Package']+'::'+e['Test']]=e['Action']
p=[k for k,v in res.items() if v=='pass']
missing=[k for k in base if res.get(k)!='pass']
print('passed',len(p),'failed',[k for k,v in res.items() if v=='fail'],'baseline_missing',missing)
"
rm -rf /repo/cmd/ergo/tmp
