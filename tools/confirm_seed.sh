#!/bin/bash
# Confirm an independently written breaking change in a fresh scratch worktree:
#   tools/confirm_seed.sh <out-dir with patch.diff + demo>  -> prints what was run and the outcomes
set -u
out=$1
wt=/tmp/confirm-$$
git -C /repo worktree add -q $wt HEAD || exit 2
cd $wt
res() { echo "[$1] exit=$2"; }
run_demo() {  # $1 = label
  if [ -f $out/demo.sh ]; then bash $out/demo.sh $wt > /tmp/confirm-demo-$1.log 2>&1; res "demo.sh $1" $?
  else
    pkg=${PKG:-$(grep -m1 -o "internal/ergo\|cmd/ergo" $out/notes.md || echo internal/ergo)}
    for f in $out/*_test.go; do cp $f $wt/$pkg/zz_$(basename $f); done
    GOFLAGS=-mod=mod go test -vet=off -count=1 ./$pkg/ -run "$(grep -ho 'func Test[A-Za-z0-9_]*' $out/*_test.go | sed 's/func //' | paste -sd'|')" > /tmp/confirm-demo-$1.log 2>&1; res "demo test ($pkg) $1" $?
    rm -f $wt/$pkg/zz_*_test.go
  fi
}
run_demo "without-change"
git apply $out/patch.diff || { echo "patch does not apply"; cd /; git -C /repo worktree remove --force $wt; exit 2; }
go build ./... ; res "go build with change" $?
GOFLAGS=-mod=mod go test -json -vet=off -count=1 ./... 2>/dev/null | python3 -c "
import sys,json
res={}
for l in sys.stdin:
    try: e=json.loads(l)
    except: continue
    if e.get('Test') and e.get('Action') in('pass','fail'): res[e['Package']+'::'+e['Test']]=e['Action']
base=set(json.load(open('/root/.vp/BASELINE.json'))['stable_pass'])
print('[suite with change] passed',sum(v=='pass' for v in res.values()),'baseline_missing',[k for k in base if res.get(k)!='pass'])"
run_demo "with-change"
cd /; git -C /repo worktree remove --force $wt
