#!/usr/bin/env python3
"""addseed.py <out-dir> <name> <property> <needs...>: file an independently written, hand-confirmed breaking change under /verif/seeded/<name>/"""
import sys, os, shutil, json, glob
out, name, prop = sys.argv[1:4]
needs = " ".join(sys.argv[4:])
d = f"/verif/seeded/{name}"
os.makedirs(d, exist_ok=True)
shutil.copy(f"{out}/patch.diff", d)
for f in glob.glob(f"{out}/demo*") + glob.glob(f"{out}/*_test.go") + glob.glob(f"{out}/notes.md"):
    shutil.copy(f, d)
meta = {
 "property": prop,
 "breaks": open(f"{out}/property.txt").read().split("\n")[0],
 "needs_to_manifest": needs,
 "written_by": "independent sub-agent given only the property text and a scratch worktree of /repo",
 "confirmed_by": "tools/confirm_seed.sh in a fresh scratch worktree: demonstration passes without the change; with the change it builds, the 389-test baseline still passes, and the demonstration fails",
 "check_result": "see DESIGN.md section 14 (tools/seeded.sh)",
}
json.dump(meta, open(f"{d}/meta.json", "w"), indent=1)
print("filed", d)
