#!/bin/bash
# False-alarm sweep: every quick check under several VERIF_SEED values on the unchanged tree.
cd "$(dirname "$0")/.." || exit 2
./check setup > /dev/null || exit 2
for s in "$@"; do
  for p in C01 C02 C03 C04 C05 C06 C07 C08 C09 C10 C11 C12 C13 C14 C15 C16 C17 C18 C20; do
    VERIF_SEED=$s ./check $p quick > sweep-$s-$p.log 2>&1; code=$?
    echo "seed=$s $p exit=$code $(grep -a -m1 '^violation\|^HARNESS' sweep-$s-$p.log | cut -c1-300)"
    [ $code -eq 0 ] && rm -f sweep-$s-$p.log
  done
done
