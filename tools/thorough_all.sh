#!/bin/bash
# Run the thorough tier of every claimed property (or the ones named), one after the other; one line each.
cd "$(dirname "$0")/.." || exit 2
props=${@:-C01 C02 C03 C04 C05 C06 C07 C08 C09 C10 C11 C12 C13 C14 C15 C16 C17 C18 C20}
mkdir -p /tmp/vlog
for p in $props; do
  s=$(date +%s)
  ./check $p thorough > /tmp/vlog/thorough-$p.log 2>&1; code=$?
  echo "$p thorough exit=$code $(( $(date +%s) - s ))s $(grep -a -m1 '^VIOLATION\|^KNOWN\|^HARNESS' /tmp/vlog/thorough-$p.log | cut -c1-200) :: $(grep -a '^runs=\|^summary' /tmp/vlog/thorough-$p.log | tail -1 | cut -c1-200)"
done
