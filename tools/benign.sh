#!/bin/bash
# benign.sh <patch.diff> [seed]: apply a property-preserving change in a scratch worktree and run
# every quick check against it (SIM_REPO); any VIOLATION here is a suspected false alarm to triage.
cd /verif || exit 2
patch=$1; seed=${2:-1}
tag=$(basename $(dirname $patch))
wt=/tmp/benignwt-$$
base=${3:-HEAD}
git -C /repo worktree add -q --detach $wt $base || exit 2
git -C $wt apply --3way $patch >/dev/null 2>&1 || { echo "patch does not apply at $base"; git -C /repo worktree remove --force $wt; exit 2; }
for p in C01 C02 C03 C04 C05 C06 C07 C08 C09 C10 C11 C12 C13 C14 C15 C16 C17 C18 C20; do
  VERIF_SEED=$seed SIM_REPO=$wt ./bin/simcheck run --prop $p --tier quick --nomin --builddir /tmp/benignbuild-$$ > /tmp/benign-$tag-$p.log 2>&1; code=$?
  echo "$tag $p exit=$code $(grep -a -m1 '^violation\|^HARNESS' /tmp/benign-$tag-$p.log | cut -c1-260)"
done
git -C /repo worktree remove --force $wt; rm -rf /tmp/benignbuild-$$
