#!/usr/bin/env python3
"""Regenerate the 'which check catches which change' table in DESIGN.md section 14
from /verif/seeded/*/meta.json (field check_result, filled by hand after tools/seeded.sh)
and /verif/mutants/RESULTS.json."""
import json, glob, os, re
rows = ["| change | breaks | needs, in order to manifest | quick check of that property |", "|---|---|---|---|"]
for d in sorted(glob.glob('/verif/seeded/*/')):
    m = json.load(open(d + 'meta.json'))
    rows.append("| seeded/%s | %s | %s | %s |" % (os.path.basename(d[:-1]), m['property'], m['needs_to_manifest'], m.get('check_result', '?')))
try:
    for name, r in sorted(json.load(open('/verif/mutants/RESULTS.json')).items()):
        rows.append("| mutants/%s | %s | %s | %s |" % (name, r['property'], r['what'], r['result']))
except Exception:
    pass
s = open('/verif/DESIGN.md').read()
start = s.index('<!-- SEEDED_TABLE_START -->') if '<!-- SEEDED_TABLE_START -->' in s else None
table = '<!-- SEEDED_TABLE_START -->\n' + "\n".join(rows) + '\n<!-- SEEDED_TABLE_END -->'
if start is None:
    s = s.replace('SEEDED_TABLE_PLACEHOLDER', table)
else:
    end = s.index('<!-- SEEDED_TABLE_END -->') + len('<!-- SEEDED_TABLE_END -->')
    s = s[:start] + table + s[end:]
open('/verif/DESIGN.md', 'w').write(s)
print(len(rows) - 2, "rows")
