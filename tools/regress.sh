#!/bin/bash
# Full regression: every seeded defect must be caught; then a false-alarm sweep over the given seeds.
cd "$(dirname "$0")/.." || exit 2
sed -i "s#cd /verif || exit 2#cd $(pwd) || exit 2#; s#/verif/\$d/patch.diff#$(pwd)/\$d/patch.diff#" tools/seeded.sh
tools/seeded.sh | cut -c1-150
tools/seedsweep.sh "$@"
