// ergosim interposer — compiled INTO package syscall of a build-time overlay
// copy of the Go standard library (never into /repo, never into GOROOT).
//
// Dormant unless ERGOSIM_CTL=<rfd>,<wfd> is in the environment. When active,
// every hooked system-call wrapper announces itself to the controller
// (PRE), blocks for a verdict (go / fail with errno / short / torn), performs
// the real call, and reports the result (POST). time.Now and crypto/rand.Read
// ask the controller for their values. One line per message; see
// /verif/DESIGN.md section 2.2.

package syscall

import (
	"internal/itoa"
	"sync"
	"unsafe"
)

const (
	vsActGo    = 0
	vsActErr   = 1
	vsActShort = 2
	vsActTorn  = 3
)

var (
	vsOnce  sync.Once
	vsOnFlg bool
	vsMu    sync.Mutex
	vsR     int
	vsW     int
	vsBuf   [8192]byte
	vsHave  int
)

func vsInit() {
	v, ok := Getenv("ERGOSIM_CTL")
	if !ok || v == "" {
		return
	}
	r, w, comma := 0, 0, false
	for i := 0; i < len(v); i++ {
		c := v[i]
		switch {
		case c == ',':
			comma = true
		case c >= '0' && c <= '9':
			if comma {
				w = w*10 + int(c-'0')
			} else {
				r = r*10 + int(c-'0')
			}
		default:
			return
		}
	}
	if !comma {
		return
	}
	vsR, vsW = r, w
	vsOnFlg = true
}

func vsOn() bool {
	vsOnce.Do(vsInit)
	return vsOnFlg
}

func vsDie(msg string) {
	m := []byte("ergosim interposer: " + msg + "\n")
	RawSyscall(SYS_WRITE, 2, uintptr(unsafe.Pointer(&m[0])), uintptr(len(m)))
	RawSyscall(SYS_EXIT_GROUP, 97, 0, 0)
}

func vsSend(line string) {
	b := []byte(line)
	for len(b) > 0 {
		n, _, e := Syscall(SYS_WRITE, uintptr(vsW), uintptr(unsafe.Pointer(&b[0])), uintptr(len(b)))
		if e == EINTR || e == EAGAIN {
			continue
		}
		if e != 0 {
			vsDie("control write failed: " + e.Error())
		}
		b = b[n:]
	}
}

// vsRecv returns one reply line (without the newline).
func vsRecv() string {
	for {
		for i := 0; i < vsHave; i++ {
			if vsBuf[i] == '\n' {
				s := string(vsBuf[:i])
				copy(vsBuf[:], vsBuf[i+1:vsHave])
				vsHave -= i + 1
				return s
			}
		}
		if vsHave == len(vsBuf) {
			vsDie("reply too long")
		}
		n, _, e := Syscall(SYS_READ, uintptr(vsR), uintptr(unsafe.Pointer(&vsBuf[vsHave])), uintptr(len(vsBuf)-vsHave))
		if e == EINTR || e == EAGAIN {
			continue
		}
		if e != 0 {
			vsDie("control read failed: " + e.Error())
		}
		if n == 0 {
			// controller went away: die quietly, like a SIGKILL would.
			RawSyscall(SYS_EXIT_GROUP, 98, 0, 0)
		}
		vsHave += int(n)
	}
}

const vsHex = "0123456789abcdef"

func vsEsc(s string) string {
	if s == "" {
		return "-"
	}
	clean := true
	for i := 0; i < len(s); i++ {
		c := s[i]
		if c <= ' ' || c == '%' || c >= 0x7f || (i == 0 && c == '-') {
			clean = false
			break
		}
	}
	if clean {
		return s
	}
	out := make([]byte, 0, len(s)+8)
	for i := 0; i < len(s); i++ {
		c := s[i]
		if c <= ' ' || c == '%' || c >= 0x7f || (i == 0 && c == '-') {
			out = append(out, '%', vsHex[c>>4], vsHex[c&15])
		} else {
			out = append(out, c)
		}
	}
	return string(out)
}

func vsAtoi(s string) int {
	n, neg := 0, false
	for i := 0; i < len(s); i++ {
		c := s[i]
		if i == 0 && c == '-' {
			neg = true
			continue
		}
		if c < '0' || c > '9' {
			vsDie("bad number in reply: " + s)
		}
		n = n*10 + int(c-'0')
	}
	if neg {
		return -n
	}
	return n
}

func vsI64(v int64) string {
	if v < 0 {
		return "-" + itoa.Uitoa(uint(-v))
	}
	return itoa.Uitoa(uint(v))
}

// vsPre announces a call and waits for the controller's verdict.
// The caller must hold no lock; vsMu is taken here and released by vsPost
// (or by the caller via vsMu.Unlock when no POST is sent).
func vsPre(op string, fd int, flags int, length int, off int64, p1, p2 string) (act int, n int) {
	vsMu.Lock()
	vsSend("P " + op + " " + itoa.Itoa(fd) + " " + itoa.Itoa(flags) + " " + itoa.Itoa(length) + " " + vsI64(off) + " " + vsEsc(p1) + " " + vsEsc(p2) + "\n")
	r := vsRecv()
	if r == "" {
		vsDie("empty reply")
	}
	switch r[0] {
	case 'G':
		return vsActGo, 0
	case 'E':
		return vsActErr, vsAtoi(r[2:])
	case 'S':
		return vsActShort, vsAtoi(r[2:])
	case 'T':
		return vsActTorn, vsAtoi(r[2:])
	}
	vsDie("unknown reply: " + r)
	return 0, 0
}

func vsPost(res int, err error) {
	en := 0
	if err != nil {
		if e, ok := err.(Errno); ok {
			en = int(e)
		} else {
			en = -1
		}
	}
	vsSend("R " + itoa.Itoa(res) + " " + itoa.Itoa(en) + "\n")
	vsMu.Unlock()
}

// vsFail is used when the verdict was "fail with errno": nothing ran.
func vsFail(errno int) error {
	vsSend("R -1 " + itoa.Itoa(errno) + "\n")
	vsMu.Unlock()
	return Errno(errno)
}

// vsTornHalt: the torn prefix has been written; report and wait to be killed.
func vsTornHalt(n int) {
	vsSend("Q " + itoa.Itoa(n) + "\n")
	for {
		vsRecv()
	}
}

// VerifsimNow is called by the patched time.Now.
func VerifsimNow() (int64, bool) {
	if !vsOn() {
		return 0, false
	}
	vsMu.Lock()
	vsSend("N\n")
	r := vsRecv()
	vsMu.Unlock()
	var n int64
	neg := false
	for i := 0; i < len(r); i++ {
		c := r[i]
		if i == 0 && c == '-' {
			neg = true
			continue
		}
		if c < '0' || c > '9' {
			vsDie("bad time reply: " + r)
		}
		n = n*10 + int64(c-'0')
	}
	if neg {
		n = -n
	}
	return n, true
}

// VerifsimRand is called by the patched crypto/rand.Read.
func VerifsimRand(b []byte) bool {
	if !vsOn() {
		return false
	}
	vsMu.Lock()
	vsSend("X " + itoa.Itoa(len(b)) + "\n")
	r := vsRecv()
	vsMu.Unlock()
	if len(r) != 2*len(b) {
		vsDie("bad rand reply length")
	}
	for i := range b {
		b[i] = vsUnhex(r[2*i])<<4 | vsUnhex(r[2*i+1])
	}
	return true
}

func vsUnhex(c byte) byte {
	switch {
	case c >= '0' && c <= '9':
		return c - '0'
	case c >= 'a' && c <= 'f':
		return c - 'a' + 10
	}
	vsDie("bad hex in rand reply")
	return 0
}

// ---- hooked wrappers (the generated originals are renamed vsReal_<name>) ----

func openat(dirfd int, path string, flags int, mode uint32) (fd int, err error) {
	if !vsOn() {
		return vsReal_openat(dirfd, path, flags, mode)
	}
	act, n := vsPre("openat", dirfd, flags, int(mode), 0, path, "")
	if act == vsActErr {
		return -1, vsFail(n)
	}
	fd, err = vsReal_openat(dirfd, path, flags, mode)
	vsPost(fd, err)
	return
}

func read(fd int, p []byte) (n int, err error) {
	if !vsOn() {
		return vsReal_read(fd, p)
	}
	act, k := vsPre("read", fd, 0, len(p), 0, "", "")
	if act == vsActErr {
		return -1, vsFail(k)
	}
	if act == vsActShort && k < len(p) && k > 0 {
		p = p[:k]
	}
	n, err = vsReal_read(fd, p)
	vsPost(n, err)
	return
}

func write(fd int, p []byte) (n int, err error) {
	if !vsOn() {
		return vsReal_write(fd, p)
	}
	act, k := vsPre("write", fd, 0, len(p), 0, "", "")
	if act == vsActErr {
		return -1, vsFail(k)
	}
	if (act == vsActShort || act == vsActTorn) && k < len(p) && k >= 0 {
		if k > 0 {
			n, err = vsReal_write(fd, p[:k])
		} else {
			n, err = 0, nil
		}
		if act == vsActTorn {
			vsTornHalt(n)
		}
		vsPost(n, err)
		return
	}
	n, err = vsReal_write(fd, p)
	if act == vsActTorn {
		vsTornHalt(n)
	}
	vsPost(n, err)
	return
}

func pread(fd int, p []byte, offset int64) (n int, err error) {
	if !vsOn() {
		return vsReal_pread(fd, p, offset)
	}
	act, k := vsPre("pread", fd, 0, len(p), offset, "", "")
	if act == vsActErr {
		return -1, vsFail(k)
	}
	if act == vsActShort && k < len(p) && k > 0 {
		p = p[:k]
	}
	n, err = vsReal_pread(fd, p, offset)
	vsPost(n, err)
	return
}

func pwrite(fd int, p []byte, offset int64) (n int, err error) {
	if !vsOn() {
		return vsReal_pwrite(fd, p, offset)
	}
	act, k := vsPre("pwrite", fd, 0, len(p), offset, "", "")
	if act == vsActErr {
		return -1, vsFail(k)
	}
	if (act == vsActShort || act == vsActTorn) && k < len(p) && k >= 0 {
		if k > 0 {
			n, err = vsReal_pwrite(fd, p[:k], offset)
		} else {
			n, err = 0, nil
		}
		if act == vsActTorn {
			vsTornHalt(n)
		}
		vsPost(n, err)
		return
	}
	n, err = vsReal_pwrite(fd, p, offset)
	if act == vsActTorn {
		vsTornHalt(n)
	}
	vsPost(n, err)
	return
}

func Close(fd int) (err error) {
	if !vsOn() {
		return vsReal_Close(fd)
	}
	act, k := vsPre("close", fd, 0, 0, 0, "", "")
	if act == vsActErr {
		return vsFail(k)
	}
	err = vsReal_Close(fd)
	vsPost(0, err)
	return
}

func Renameat(olddirfd int, oldpath string, newdirfd int, newpath string) (err error) {
	if !vsOn() {
		return vsReal_Renameat(olddirfd, oldpath, newdirfd, newpath)
	}
	act, k := vsPre("rename", olddirfd, newdirfd, 0, 0, oldpath, newpath)
	if act == vsActErr {
		return vsFail(k)
	}
	err = vsReal_Renameat(olddirfd, oldpath, newdirfd, newpath)
	vsPost(0, err)
	return
}

// Flock: a blocking request is never handed to the kernel as such (the
// controller could not see a thread asleep in the kernel). It is tried
// non-blocking; on EWOULDBLOCK the attempt is reported with result -2 and
// announced again, and the controller parks the process until the holder lets go.
func Flock(fd int, how int) (err error) {
	if !vsOn() {
		return vsReal_Flock(fd, how)
	}
	for {
		act, k := vsPre("flock", fd, how, 0, 0, "", "")
		if act == vsActErr {
			return vsFail(k)
		}
		if how&LOCK_NB != 0 || how&LOCK_UN != 0 {
			err = vsReal_Flock(fd, how)
			vsPost(0, err)
			return
		}
		err = vsReal_Flock(fd, how|LOCK_NB)
		if err == EWOULDBLOCK {
			vsPost(-2, err)
			continue
		}
		vsPost(0, err)
		return
	}
}

func Fsync(fd int) (err error) {
	if !vsOn() {
		return vsReal_Fsync(fd)
	}
	act, k := vsPre("fsync", fd, 0, 0, 0, "", "")
	if act == vsActErr {
		return vsFail(k)
	}
	err = vsReal_Fsync(fd)
	vsPost(0, err)
	return
}

func Fdatasync(fd int) (err error) {
	if !vsOn() {
		return vsReal_Fdatasync(fd)
	}
	act, k := vsPre("fdatasync", fd, 0, 0, 0, "", "")
	if act == vsActErr {
		return vsFail(k)
	}
	err = vsReal_Fdatasync(fd)
	vsPost(0, err)
	return
}

func Ftruncate(fd int, length int64) (err error) {
	if !vsOn() {
		return vsReal_Ftruncate(fd, length)
	}
	act, k := vsPre("ftruncate", fd, 0, 0, length, "", "")
	if act == vsActErr {
		return vsFail(k)
	}
	err = vsReal_Ftruncate(fd, length)
	vsPost(0, err)
	return
}

func Truncate(path string, length int64) (err error) {
	if !vsOn() {
		return vsReal_Truncate(path, length)
	}
	act, k := vsPre("truncate", -100, 0, 0, length, path, "")
	if act == vsActErr {
		return vsFail(k)
	}
	err = vsReal_Truncate(path, length)
	vsPost(0, err)
	return
}

func unlinkat(dirfd int, path string, flags int) (err error) {
	if !vsOn() {
		return vsReal_unlinkat(dirfd, path, flags)
	}
	act, k := vsPre("unlink", dirfd, flags, 0, 0, path, "")
	if act == vsActErr {
		return vsFail(k)
	}
	err = vsReal_unlinkat(dirfd, path, flags)
	vsPost(0, err)
	return
}

func Mkdirat(dirfd int, path string, mode uint32) (err error) {
	if !vsOn() {
		return vsReal_Mkdirat(dirfd, path, mode)
	}
	act, k := vsPre("mkdir", dirfd, 0, int(mode), 0, path, "")
	if act == vsActErr {
		return vsFail(k)
	}
	err = vsReal_Mkdirat(dirfd, path, mode)
	vsPost(0, err)
	return
}

func fstatat(fd int, path string, stat *Stat_t, flags int) (err error) {
	if !vsOn() {
		return vsReal_fstatat(fd, path, stat, flags)
	}
	act, k := vsPre("stat", fd, flags, 0, 0, path, "")
	if act == vsActErr {
		return vsFail(k)
	}
	err = vsReal_fstatat(fd, path, stat, flags)
	vsPost(0, err)
	return
}

func Fstat(fd int, stat *Stat_t) (err error) {
	if !vsOn() {
		return vsReal_Fstat(fd, stat)
	}
	act, k := vsPre("fstat", fd, 0, 0, 0, "", "")
	if act == vsActErr {
		return vsFail(k)
	}
	err = vsReal_Fstat(fd, stat)
	vsPost(0, err)
	return
}

func Getdents(fd int, buf []byte) (n int, err error) {
	if !vsOn() {
		return vsReal_Getdents(fd, buf)
	}
	act, k := vsPre("getdents", fd, 0, len(buf), 0, "", "")
	if act == vsActErr {
		return -1, vsFail(k)
	}
	n, err = vsReal_Getdents(fd, buf)
	vsPost(n, err)
	return
}

func Fchmod(fd int, mode uint32) (err error) {
	if !vsOn() {
		return vsReal_Fchmod(fd, mode)
	}
	act, k := vsPre("fchmod", fd, 0, int(mode), 0, "", "")
	if act == vsActErr {
		return vsFail(k)
	}
	err = vsReal_Fchmod(fd, mode)
	vsPost(0, err)
	return
}

func fchmodat(dirfd int, path string, mode uint32) (err error) {
	if !vsOn() {
		return vsReal_fchmodat(dirfd, path, mode)
	}
	act, k := vsPre("chmod", dirfd, 0, int(mode), 0, path, "")
	if act == vsActErr {
		return vsFail(k)
	}
	err = vsReal_fchmodat(dirfd, path, mode)
	vsPost(0, err)
	return
}

func linkat(olddirfd int, oldpath string, newdirfd int, newpath string, flags int) (err error) {
	if !vsOn() {
		return vsReal_linkat(olddirfd, oldpath, newdirfd, newpath, flags)
	}
	act, k := vsPre("link", olddirfd, flags, 0, 0, oldpath, newpath)
	if act == vsActErr {
		return vsFail(k)
	}
	err = vsReal_linkat(olddirfd, oldpath, newdirfd, newpath, flags)
	vsPost(0, err)
	return
}

func symlinkat(oldpath string, newdirfd int, newpath string) (err error) {
	if !vsOn() {
		return vsReal_symlinkat(oldpath, newdirfd, newpath)
	}
	act, k := vsPre("symlink", newdirfd, 0, 0, 0, oldpath, newpath)
	if act == vsActErr {
		return vsFail(k)
	}
	err = vsReal_symlinkat(oldpath, newdirfd, newpath)
	vsPost(0, err)
	return
}
