package main

// C15: bounded liveness. Once faults have stopped, agents finish what they
// hold and then loop claim -> done; the loop must empty the todo set within
// 2*tasks+2 commands. `no ready tasks` while todo tasks remain and nothing is
// doing/blocked/error is the violation (the effective waits-for relation
// ergo let callers build has a cycle).

import (
	"fmt"
	"sort"
	"strings"
)

func (r *Run) Drain() {
	o := r.ensureObs()
	ntasks := 0
	for _, it := range r.M.Tasks() {
		_ = it
		ntasks++
	}
	if ntasks == 0 {
		return
	}
	budget := 2*ntasks + 2
	used := 0
	agent := "drain@h"
	// 1. finish everything that is held
	for _, it := range r.M.Tasks() {
		switch it.State {
		case "doing", "blocked":
			r.DoCmd(Cmd{Op: "set", ID: it.ID, State: sp("done"), Agent: agent})
		case "error":
			r.DoCmd(Cmd{Op: "set", ID: it.ID, State: sp("canceled"), Agent: agent})
		}
	}
	_ = o
	// 2. claim -> done until nothing is ready
	for used < budget {
		p := r.DoCmd(Cmd{Op: "claim", Agent: agent})
		used++
		if p.ExitCode != 0 {
			break
		}
		v, err := parseOneJSON(p.Stdout)
		if err != nil {
			break
		}
		m := asMap(v)
		if str(m, "status") == "no_ready" {
			break
		}
		id := str(m, "id")
		if id == "" {
			break
		}
		r.DoCmd(Cmd{Op: "set", ID: id, State: sp("done"), Agent: agent})
		used++
	}
	r.W.Count.Inc("c15.drains")
	r.W.Count.Add("c15.drain_commands", used)
	final := r.ensureObs()
	var stuck []string
	held := false
	for _, id := range final.IDs() {
		it := final.Items[id]
		if it.Kind != "task" || !it.InList {
			continue
		}
		switch it.LState {
		case "todo":
			stuck = append(stuck, id)
		case "doing", "blocked", "error":
			held = true
		}
	}
	if len(stuck) > 0 && !held {
		sort.Strings(stuck)
		r.viol("C15", "drain-stuck", "todo-left-nothing-ready", "after finishing all held work and claiming until `no ready tasks` (%d commands, budget %d), %d todo tasks remain and none can ever become ready: %v; waits-for cycle: %s", used, budget, len(stuck), stuck, r.waitsForCycle())
	}
}

// waitsForCycle finds a cycle in the effective waits-for relation of the model:
// a task waits for its own dependencies and for every child of every epic its
// epic depends on.
func (r *Run) waitsForCycle() string {
	m := r.M
	adj := map[string][]string{}
	for _, t := range m.Tasks() {
		if finished(t.State) {
			continue
		}
		for d := range t.Deps {
			if o := m.Items[d]; o != nil && !finished(o.State) {
				adj[t.ID] = append(adj[t.ID], d)
			}
		}
		if t.Epic != "" {
			if e := m.Items[t.Epic]; e != nil {
				for de := range e.Deps {
					for _, c := range m.Tasks() {
						if c.Epic == de && !finished(c.State) {
							adj[t.ID] = append(adj[t.ID], c.ID+"(via epic "+t.Epic+"→"+de+")")
						}
					}
				}
			}
		}
	}
	clean := func(s string) string {
		if i := strings.IndexByte(s, '('); i >= 0 {
			return s[:i]
		}
		return s
	}
	deps := map[string][]string{}
	for k, v := range adj {
		for _, x := range v {
			deps[k] = append(deps[k], clean(x))
		}
	}
	if cyc := findCycle(deps); cyc != nil {
		return fmt.Sprint(cyc)
	}
	return "(none found by the model)"
}

// twoLevelPrelude: epics, tasks inside them, dependencies across epics and
// between epics, and moves of tasks between epics — the shapes in which the
// effective waits-for relation can close a cycle that no single check sees.
// cycleMotif: the three requests that together close a waits-for cycle through
// an epic dependency (T in E1, C in E2, E1 depends on E2, C depends on T), in a
// seeded order: whichever comes last must be refused.
func (g *Gen) cycleMotif(base int) []Step {
	e1, e2 := fmt.Sprintf("#%d", base), fmt.Sprintf("#%d", base+1)
	t, c := fmt.Sprintf("#%d", base+2), fmt.Sprintf("#%d", base+3)
	st := []Step{
		{Cmd: &Cmd{Op: "new_epic", Title: sp("E1 " + g.text("title"))}}, {Cmd: &Cmd{Op: "new_epic", Title: sp("E2 " + g.text("title"))}},
		{Cmd: &Cmd{Op: "new_task", Title: sp("T " + g.text("title"))}}, {Cmd: &Cmd{Op: "new_task", Title: sp("C " + g.text("title")), Epic: &e2}},
	}
	closing := []Step{
		{Cmd: &Cmd{Op: "set", ID: t, Epic: &e1}},
		{Cmd: &Cmd{Op: "sequence", IDs: []string{t, c}}},
		{Cmd: &Cmd{Op: "sequence", IDs: []string{e2, e1}}},
	}
	for i := len(closing) - 1; i > 0; i-- {
		j := g.R.Intn(i + 1)
		closing[i], closing[j] = closing[j], closing[i]
	}
	return append(st, closing...)
}

func (g *Gen) twoLevelPrelude() []Step {
	var st []Step
	ne := 2 + g.R.Intn(2)
	for i := 0; i < ne; i++ {
		st = append(st, Step{Cmd: &Cmd{Op: "new_epic", Title: sp(fmt.Sprintf("E%d %s", i, g.text("title")))}})
	}
	nt := 3 + g.R.Intn(4)
	for i := 0; i < nt; i++ {
		e := fmt.Sprintf("#%d", g.R.Intn(ne))
		c := Cmd{Op: "new_task", Title: sp(fmt.Sprintf("t%d %s", i, g.text("title")))}
		if g.R.Chance(4, 5) {
			c.Epic = &e
		}
		st = append(st, Step{Cmd: &c})
	}
	// some tasks are finished before the edges are drawn and reopened after:
	// a relation that is harmless while a task is done can deadlock once the
	// task is back in todo
	var finishedRefs []string
	for i := 0; i < nt; i++ {
		if g.R.Chance(1, 3) {
			ref := fmt.Sprintf("#%d", ne+i)
			finishedRefs = append(finishedRefs, ref)
			st = append(st, Step{Cmd: &Cmd{Op: "set", ID: ref, State: sp(g.oneOf("done", "canceled", "done"))}})
		}
	}
	nl := 2 + g.R.Intn(5)
	for i := 0; i < nl; i++ {
		if g.R.Chance(1, 3) {
			a, b := g.R.Intn(ne), g.R.Intn(ne)
			st = append(st, Step{Cmd: &Cmd{Op: "sequence", IDs: []string{fmt.Sprintf("#%d", a), fmt.Sprintf("#%d", b)}}})
		} else {
			a, b := ne+g.R.Intn(nt), ne+g.R.Intn(nt)
			st = append(st, Step{Cmd: &Cmd{Op: "sequence", IDs: []string{fmt.Sprintf("#%d", a), fmt.Sprintf("#%d", b)}}})
		}
		if g.R.Chance(1, 4) {
			e := fmt.Sprintf("#%d", g.R.Intn(ne))
			st = append(st, Step{Cmd: &Cmd{Op: "set", ID: fmt.Sprintf("#%d", ne+g.R.Intn(nt)), Epic: &e}})
		}
	}
	for _, ref := range finishedRefs {
		if g.R.Chance(2, 3) {
			st = append(st, Step{Cmd: &Cmd{Op: "set", ID: ref, State: sp("todo")}})
		}
	}
	return st
}
