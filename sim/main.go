package main

import (
	"fmt"
	"os"
)

func main() {
	if len(os.Args) < 2 {
		fmt.Fprintln(os.Stderr, "usage: simcheck <build|smoke|run|replay> ...")
		os.Exit(2)
	}
	switch os.Args[1] {
	case "build":
		bin, err := buildErgo("/repo", "/verif", "/verif/build")
		if err != nil {
			fmt.Fprintln(os.Stderr, err)
			os.Exit(2)
		}
		fmt.Println(bin)
	case "smoke":
		smoke()
	}
}

func smoke() {
	w := NewWorld("/verif/build/ergo", NewClock("fine", 1), NewRandStream(1))
	defer w.Destroy()
	w.TraceOn = true
	p := w.RunOne(ProcSpec{Argv: []string{"init"}, Cwd: w.Proj, Label: "init"})
	fmt.Printf("init: code=%d out=%q err=%q\n", p.ExitCode, p.Stdout, p.Stderr)
	p = w.RunOne(ProcSpec{Argv: []string{"--json", "new", "task"}, Stdin: []byte(`{"title":"hello"}`), Cwd: w.Proj, Label: "new"})
	fmt.Printf("new: code=%d out=%q err=%q\n", p.ExitCode, p.Stdout, p.Stderr)
	for _, l := range w.TraceLn {
		fmt.Println(l)
	}
}
