package main

import (
	"flag"
	"fmt"
	"os"
	"path/filepath"
	"sort"
	"strconv"
	"strings"
	"sync"
	"time"
)

func envSeed() uint64 {
	if s := os.Getenv("VERIF_SEED"); s != "" {
		if v, err := strconv.ParseUint(s, 10, 64); err == nil {
			return v
		}
		if v, err := strconv.ParseInt(s, 10, 64); err == nil {
			return uint64(v)
		}
	}
	return 20261003
}

func main() {
	if len(os.Args) < 2 {
		fmt.Fprintln(os.Stderr, "usage: simcheck <build|smoke|dev|run|replay> ...")
		os.Exit(2)
	}
	switch os.Args[1] {
	case "build":
		bin, err := buildErgo(repoDir, verifDir, filepath.Join(verifDir, "build"))
		if err != nil {
			fmt.Fprintln(os.Stderr, err)
			os.Exit(2)
		}
		fmt.Println(bin)
	case "dev":
		devMain(os.Args[2:])
	case "run":
		runMain(os.Args[2:])
	case "digests":
		digestsMain(os.Args[2:])
	case "replay":
		replayMain(os.Args[2:])
	default:
		fmt.Fprintln(os.Stderr, "unknown subcommand")
		os.Exit(2)
	}
}

// safeRun converts harness panics into a report.
func safeRun(f func() *RunReport) (rep *RunReport) {
	defer func() {
		if x := recover(); x != nil {
			switch e := x.(type) {
			case HarnessError:
				rep = &RunReport{Harness: e.Msg}
			case WatchdogSpin:
				rep = &RunReport{V: []Violation{{Prop: "C12", Oracle: "non-termination", Sig: "non-termination:" + fmt.Sprint(e.Argv), Detail: fmt.Sprintf("ergo %v burned CPU for the whole watchdog period without reaching a system call", e.Argv)}}}
			default:
				panic(x)
			}
		}
	}()
	return f()
}

func devMain(args []string) {
	fs := flag.NewFlagSet("dev", flag.ExitOnError)
	prop := fs.String("prop", "C06", "")
	runs := fs.Int("runs", 20, "")
	workers := fs.Int("workers", 16, "")
	seed := fs.Uint64("seed", envSeed(), "")
	verbose := fs.Bool("v", false, "")
	fs.Parse(args)
	bin, err := buildErgo(repoDir, verifDir, filepath.Join(verifDir, "build"))
	if err != nil {
		fmt.Fprintln(os.Stderr, err)
		os.Exit(2)
	}
	start := time.Now()
	type res struct {
		i   int
		rep *RunReport
	}
	ch := make(chan int)
	out := make(chan res)
	var wg sync.WaitGroup
	for w := 0; w < *workers; w++ {
		wg.Add(1)
		go func() {
			defer wg.Done()
			for i := range ch {
				s := mix64(*seed, uint64(i)*7919+hashStr(*prop))
				rep := safeRun(func() *RunReport { return runSeqGenerated(bin, *prop, s) })
				out <- res{i, rep}
			}
		}()
	}
	go func() {
		for i := 0; i < *runs; i++ {
			ch <- i
		}
		close(ch)
		wg.Wait()
		close(out)
	}()
	sigs := map[string][]string{}
	sigCount := map[string]int{}
	cmds, effects := 0, 0
	for r := range out {
		if r.rep.Harness != "" {
			fmt.Println("HARNESS:", r.rep.Harness)
			continue
		}
		cmds += r.rep.Cmds
		effects += r.rep.Effects
		for _, v := range r.rep.V {
			k := v.Prop + " " + v.Sig
			if !*verbose {
				k = v.Prop + " " + v.Oracle + " " + coarse(v.Sig)
			}
			sigCount[k]++
			if len(sigs[k]) < 1 {
				sigs[k] = append(sigs[k], fmt.Sprintf("run %d step %d: %s", r.i, v.Step, v.Detail))
			}
		}
		if *verbose {
			fmt.Printf("run %d: cmds=%d effects=%d viol=%d\n", r.i, r.rep.Cmds, r.rep.Effects, len(r.rep.V))
		}
	}
	var ks []string
	for k := range sigs {
		ks = append(ks, k)
	}
	sort.Strings(ks)
	for _, k := range ks {
		fmt.Printf("%4d× %s\n      %s\n", sigCount[k], k, sigs[k][0])
	}
	fmt.Printf("runs=%d cmds=%d effects=%d wall=%.1fs\n", *runs, cmds, effects, time.Since(start).Seconds())
}

func hashStr(s string) uint64 {
	var h uint64 = 1469598103934665603
	for i := 0; i < len(s); i++ {
		h ^= uint64(s[i])
		h *= 1099511628211
	}
	return h
}

func coarse(sig string) string {
	// drop field lists in braces, input modes and pre-state classes (@…)
	var segs []string
	for _, seg := range strings.Split(sig, "|") {
		if strings.HasPrefix(seg, "@") {
			continue
		}
		out := []byte{}
		depth := 0
		for i := 0; i < len(seg); i++ {
			c := seg[i]
			if c == '{' {
				depth++
				continue
			}
			if c == '}' {
				depth--
				continue
			}
			if depth == 0 {
				out = append(out, c)
			}
		}
		s := string(out)
		for _, m := range []string{"/flags", "/bodystdin"} {
			s = strings.ReplaceAll(s, m, "")
		}
		segs = append(segs, s)
	}
	return strings.Join(segs, "|")
}

// digestsMain prints one line per (property, mode, seed): the trace digest of
// the generated run and of the replay of its recorded scenario. Used by the
// determinism self-test (tools/selftest.sh), which runs it in many processes
// with different GOMAXPROCS and diffs the output.
func digestsMain(args []string) {
	fs := flag.NewFlagSet("digests", flag.ExitOnError)
	n := fs.Int("n", 6, "seeds per mode")
	seed := fs.Uint64("seed", 777, "")
	props := fs.String("props", "C06,C03,C04,C02,C13,C05,C12,C18,C09,C15", "")
	fs.Parse(args)
	bin := filepath.Join(verifDir, "build", "ergo")
	if tf := os.Getenv("SIM_TRACE"); tf != "" {
		traceFile, _ = os.Create(tf)
		defer traceFile.Close()
	}
	for _, prop := range strings.Split(*props, ",") {
		plan := planFor(prop)
		for mi := range plan.Modes {
			mode := &plan.Modes[mi]
			for i := 0; i < *n; i++ {
				s := mix64(*seed, hashStr(prop+"/"+mode.Name)+uint64(i))
				rep := safeRun(func() *RunReport { return mode.Run(bin, s) })
				if rep.Harness != "" {
					fmt.Printf("%s %s %d HARNESS %s\n", prop, mode.Name, i, rep.Harness)
					continue
				}
				line := fmt.Sprintf("%s %s %d gen=%s viol=%d", prop, mode.Name, i, rep.Digest[:16], len(rep.V))
				if mode.Name == "seq" || mode.Name == "fork" || mode.Name == "layout" || mode.Name == "corrupt" {
					// whole-scenario replay must give the same trace
					rp := safeRun(func() *RunReport { return mode.Replay(bin, rep.Sc) })
					line += " replay=" + rp.Digest[:16]
					if rp.Digest != rep.Digest {
						line += " MISMATCH"
					}
				}
				fmt.Println(line)
			}
		}
	}
}
