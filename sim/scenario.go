package main

// Scenarios are explicit data: configuration + steps (+ recorded decisions and
// faults for concurrent batches). Replaying a scenario uses no search PRNG:
// the clock/entropy/ambient streams are dedicated generators whose seeds are
// part of the file.

import (
	"encoding/json"
	"os"
)

type Config struct {
	Clock         string `json:"clock"` // fine coarse leap back second
	ClockSeed     uint64 `json:"clock_seed"`
	RandSeed      uint64 `json:"rand_seed"`
	AmbSeed       uint64 `json:"amb_seed"`
	ShortWriteDen int    `json:"short_write_den,omitempty"`
	ShortReadDen  int    `json:"short_read_den,omitempty"`
	StdinChunk    bool   `json:"stdin_chunk,omitempty"`
	Layout        string `json:"layout,omitempty"` // "" plans | legacy | both | nolock
	GoMaxProcs    string `json:"gomaxprocs,omitempty"`
	ObsEvery      int    `json:"obs_every,omitempty"` // full observation every n steps (1 = always)
}

// FileOp: the controller (playing the agent doing its work) creates or changes
// a file in the project, e.g. a result file.
type FileOp struct {
	Path    string `json:"path"` // relative to project root
	Kind    string `json:"kind"` // file dir symlink remove
	Content string `json:"content,omitempty"`
	Target  string `json:"target,omitempty"` // symlink target
	// KeepMeta: rewrite the content but keep the file's mtime (cp -p, rsync -t,
	// an editor within one clock tick): metadata is no proxy for content
	KeepMeta bool `json:"keep_meta,omitempty"`
}

// DiskOp: damage or leftovers applied to .ergo between commands.
type DiskOp struct {
	Kind string `json:"kind"` // tail_torn lock_missing tmp_stale corrupt
	N    int    `json:"n,omitempty"`
	Arg  string `json:"arg,omitempty"`
	Pos  int    `json:"pos,omitempty"`
}

type BatchSpec struct {
	Cmds      []Cmd   `json:"cmds"`
	Strategy  string  `json:"strategy"` // seq rand sticky preempt replay
	SchedSeed uint64  `json:"sched_seed,omitempty"`
	PreemptA  int     `json:"preempt_a,omitempty"`
	PreemptK  int     `json:"preempt_k,omitempty"`
	PreemptB  int     `json:"preempt_b,omitempty"`
	PreemptKB int     `json:"preempt_kb,omitempty"`
	Decisions []int   `json:"decisions,omitempty"` // recorded / to replay
	Faults    []Fault `json:"faults,omitempty"`
}

// IOFault: an I/O error addressed by kind of call: the Nth read/write/open of
// a log or temp file inside one command returns Errno (after Short bytes, for
// writes: a short write followed by the error on the rest).
type IOFault struct {
	Call  string `json:"call"` // write | read | openat
	Nth   int    `json:"nth"`
	Short int    `json:"short,omitempty"`
	Errno int    `json:"errno"`
}

type Step struct {
	IO      *IOFault   `json:"io,omitempty"`
	Cmd     *Cmd       `json:"cmd,omitempty"`
	Batch   *BatchSpec `json:"batch,omitempty"`
	File    *FileOp    `json:"file,omitempty"`
	Disk    *DiskOp    `json:"disk,omitempty"`
	ForceID string     `json:"force_id,omitempty"` // next id draw yields this (symbolic ref allowed)
	Crash   *Fault     `json:"crash,omitempty"`    // applies to Cmd: kill/torn/err at visible event K
	Fork    string     `json:"fork,omitempty"`     // "compact": differential fork point (C05)
	Cont    []Step     `json:"cont,omitempty"`     // continuation executed on both sides of the fork
	Note    string     `json:"note,omitempty"`
}

type Scenario struct {
	Prop   string `json:"property"`
	Kind   string `json:"kind"` // seq crash conc corrupt layout
	Seed   uint64 `json:"seed"`
	Config Config `json:"config"`
	Steps  []Step `json:"steps"`
	// filled when a violation is reported
	Violation *Violation `json:"violation,omitempty"`
	Digest    string     `json:"trace_digest,omitempty"`
}

func (s *Scenario) Save(path string) error {
	b, err := json.MarshalIndent(s, "", " ")
	if err != nil {
		return err
	}
	return os.WriteFile(path, append(b, '\n'), 0o644)
}

func LoadScenario(path string) (*Scenario, error) {
	b, err := os.ReadFile(path)
	if err != nil {
		return nil, err
	}
	var s Scenario
	if err := json.Unmarshal(b, &s); err != nil {
		return nil, err
	}
	return &s, nil
}

func (s *Scenario) Clone() *Scenario {
	b, _ := json.Marshal(s)
	var c Scenario
	json.Unmarshal(b, &c)
	return &c
}
