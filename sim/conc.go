package main

// Concurrent batches (C01, C02, C07, C13): several real ergo processes run
// "at the same time"; the scheduler decides at every system call on .ergo who
// goes next. Histories are checked for linearizability against the reference
// model with porcupine, plus direct checks on the log and on readers.

import (
	"bytes"
	"encoding/json"
	"fmt"
	"os"
	"path/filepath"
	"sort"
	"strings"
	"syscall"
	"time"

	"github.com/anishathalye/porcupine"
)

// literal resolves all symbolic references of c against m.
func literal(c Cmd, m *Model) Cmd {
	if c.ID != "" {
		c.ID = m.Resolve(c.ID)
	}
	if c.Epic != nil {
		e := m.Resolve(*c.Epic)
		c.Epic = &e
	}
	if len(c.IDs) > 0 {
		ids := make([]string, len(c.IDs))
		for i, id := range c.IDs {
			ids[i] = m.Resolve(id)
		}
		c.IDs = ids
	}
	return c
}

type logSnap struct {
	seq   int
	bytes []byte
}

type batchOutcome struct {
	cmds  []Cmd
	procs []*Proc
	reply []map[string]any
	raw   []any
	ok    []bool
	busy  []bool
	pre   *Obs
	post  *Obs
	snaps []logSnap
	res   *BatchResult
}

func (r *Run) makeSched(b *BatchSpec) Scheduler {
	switch b.Strategy {
	case "rand":
		return randSched{NewSplitMix(b.SchedSeed)}
	case "sticky":
		return &stickySched{rng: NewSplitMix(b.SchedSeed), den: 4, last: -1}
	case "serial":
		return &serialSched{rng: NewSplitMix(b.SchedSeed)}
	case "preempt":
		return &preemptSched{A: b.PreemptA, K: b.PreemptK, inner: randSched{NewSplitMix(b.SchedSeed)}}
	case "preempts":
		// as preempt, but while A is parked the others run one after another
		// (seeded order) instead of interleaved: nobody among them meets a busy lock
		return &preemptSched{A: b.PreemptA, K: b.PreemptK, inner: &serialSched{rng: NewSplitMix(b.SchedSeed)}}
	case "preempt2":
		return &preempt2Sched{A: b.PreemptA, K: b.PreemptK, B: b.PreemptB, KB: b.PreemptKB, inner: randSched{NewSplitMix(b.SchedSeed)}}
	case "replay":
		return &replaySched{dec: b.Decisions}
	}
	return seqSched{}
}

// DoBatch runs one concurrent batch and applies the concurrent oracles.
func (r *Run) DoBatch(b *BatchSpec) *batchOutcome {
	r.StepNo++
	pre := r.ensureObs()
	out := &batchOutcome{pre: pre}
	var specs []ProcSpec
	for _, c := range b.Cmds {
		lc := literal(c, r.M)
		out.cmds = append(out.cmds, lc)
		sp := r.spec(lc)
		sp.Label = lc.Op
		specs = append(specs, sp)
	}
	r.Cmds += len(specs)
	// physical snapshots of the log whenever it changes
	lp := r.logPath()
	_, lb, _ := storeFiles(r.W.Proj)
	out.snaps = append(out.snaps, logSnap{seq: r.W.Seq, bytes: lb})
	// committed states of the log: at the start, whenever a process releases
	// the lock, and whenever a process ends (covers writers that take no lock).
	// What a file holds in the middle of somebody's lock section (a truncated
	// or half-written or momentarily absent log) is NOT a state of the store.
	commit := func(w *World) {
		_, cur, _ := storeFiles(w.Proj)
		if n := len(out.snaps); n > 0 && bytes.Equal(out.snaps[n-1].bytes, cur) {
			return
		}
		out.snaps = append(out.snaps, logSnap{seq: w.Seq, bytes: cur})
	}
	r.W.OnPost = func(w *World, p *Proc, e *Ev) {
		if e.Op == "flock" && e.Flags&syscall.LOCK_UN != 0 {
			commit(w)
		}
	}
	r.W.OnExit = func(w *World, p *Proc) {
		// only a process that changed the log can have committed anything
		for _, e := range p.Events {
			if e.Visible && e.Posted && e.IsMutating() && (strings.Contains(e.Path, ".jsonl") || strings.Contains(e.Path2, ".jsonl")) {
				commit(w)
				return
			}
		}
	}
	_ = lp
	sched := r.makeSched(b)
	blocksBefore := r.W.Blocks
	res := r.W.RunBatchLazy(specs, sched, b.Faults)
	r.W.OnPost = nil
	r.W.OnExit = nil
	out.res = res
	out.procs = res.Procs
	if b.Strategy != "replay" {
		b.Decisions = res.Decisions
	}
	for i, p := range res.Procs {
		reply, ok := r.checkProcess(out.cmds[i], p)
		out.raw = append(out.raw, reply)
		out.reply = append(out.reply, asMap(reply))
		out.ok = append(out.ok, ok)
		out.busy = append(out.busy, !ok && bytes.Contains(p.Stderr, []byte("lock busy")))
	}
	post := r.observe()
	out.post = post
	if r.W.Blocks > blocksBefore {
		r.viol("C02", "blocking-lock-wait", "blocked", "a command blocked waiting for the lock (%d blocking waits in this batch)", r.W.Blocks-blocksBefore)
	}
	if res.Deadlock {
		r.viol("C02", "deadlock", "deadlock", "all remaining processes were waiting for a lock nobody would release")
	}
	r.checkBatchLog(out)
	r.checkClaims(out)
	r.checkReaders(out)
	r.checkLinearizable(out)
	// adopt the observed state and check the standing invariants
	r.M = ModelFromObs(post, r.M)
	r.afterStep(post)
	for i := range out.ok {
		if out.ok[i] && !out.cmds[i].IsRead() {
			r.Effects++
		}
	}
	return out
}

// RunBatchLazy is RunBatch with lazy starts: a process is spawned when the
// scheduler first picks it, so that invocation times differ.
func (w *World) RunBatchLazy(specs []ProcSpec, sched Scheduler, faults []Fault) *BatchResult {
	res := &BatchResult{}
	fmap := map[[2]int]Fault{}
	for _, f := range faults {
		fmap[[2]int{f.Proc, f.K}] = f
	}
	res.Procs = make([]*Proc, len(specs))
	for i := range specs {
		// a placeholder that counts as runnable until started
		res.Procs[i] = &Proc{Idx: i, Spec: specs[i], State: psNew, KilledAtK: -1}
	}
	steps := 0
	for {
		var runnable []int
		alive := 0
		for i, p := range res.Procs {
			if p.State == psNew {
				runnable = append(runnable, i)
				alive++
				continue
			}
			if p.Alive() {
				alive++
			}
			if w.Runnable(p) {
				runnable = append(runnable, i)
			}
		}
		if len(runnable) == 0 {
			if alive > 0 {
				res.Deadlock = true
				for _, p := range res.Procs {
					if p.Alive() && p.State != psNew {
						w.Kill(p)
					}
				}
			}
			break
		}
		pi := runnable[0]
		if len(runnable) > 1 {
			pi = runnable[sched.Pick(w, res.Procs, runnable)]
			w.Count.Inc("sched.decisions")
		}
		res.Decisions = append(res.Decisions, pi)
		p := res.Procs[pi]
		if p.State == psNew {
			res.Procs[pi] = w.Start(pi, specs[pi])
			continue
		}
		act := "go"
		if f, ok := fmap[[2]int{pi, p.Pend.K}]; ok && (f.Op == "" || f.Op == p.Pend.Op || !strings.HasPrefix(f.Act, "err:")) {
			act = f.Act
		}
		w.Step(p, act)
		steps++
		if steps > 200000 {
			harnessf("batch exceeded 200000 steps")
		}
	}
	return res
}

// ---------------------------------------------------------------- log checks (C02)

func (r *Run) checkBatchLog(o *batchOutcome) {
	hasRewrite := false
	for i, c := range o.cmds {
		if (c.Op == "compact" || c.Op == "plan" || c.Op == "init") && o.ok[i] {
			hasRewrite = true
		}
	}
	if okw, why := wholeLines(o.post.LogBytes); !okw {
		if pw, _ := wholeLines(o.pre.LogBytes); pw {
			r.viol("C02", "whole-lines", "batch", "after a concurrent batch %v: %s", shapes(o.cmds), why)
		}
	}
	// what each process did to the log
	for i, p := range o.procs {
		wroteLog, wroteTmp := 0, 0
		renamed := false
		for _, e := range p.Events {
			if !e.Visible || !e.Posted {
				continue
			}
			if (e.Op == "write" || e.Op == "pwrite") && e.Res > 0 {
				if strings.HasSuffix(e.Path, ".jsonl") {
					wroteLog += e.Res
				} else if strings.HasSuffix(e.Path, ".tmp") {
					wroteTmp += e.Res
				}
			}
			if e.Op == "rename" && e.Errno == 0 {
				renamed = true
			}
		}
		if o.ok[i] || o.cmds[i].IsRead() {
			continue
		}
		if o.busy[i] && (wroteLog > 0 || wroteTmp > 0 || renamed) {
			r.viol("C02", "lock-busy-but-wrote", "@"+o.cmds[i].Op, "%s reported lock busy yet wrote to the store (%d log bytes, %d tmp bytes, renamed=%v)", o.cmds[i].String(), wroteLog, wroteTmp, renamed)
		} else if wroteLog > 0 || renamed {
			r.viol("C02", "failed-but-wrote", "@"+o.cmds[i].Op, "%s failed (%s) after writing to the log (%d bytes, renamed=%v)", o.cmds[i].String(), tail(p.Stderr), wroteLog, renamed)
		}
	}
	if hasRewrite {
		return
	}
	// append-only batch: pre-log is a prefix, and the number of new events
	// equals what the successful commands wrote.
	if okp, why := jsonLinesEqualPrefix(o.pre.LogBytes, o.post.LogBytes); !okp {
		r.viol("C02", "history-prefix", "batch", "a concurrent batch %v rewrote history: %s", shapes(o.cmds), why)
	}
}

func shapes(cs []Cmd) []string {
	var s []string
	for _, c := range cs {
		s = append(s, c.Shape())
	}
	return s
}

// ---------------------------------------------------------------- claims (C01)

func (r *Run) checkClaims(o *batchOutcome) {
	won := map[string][]int{}
	reopen := false
	for i, c := range o.cmds {
		if !o.ok[i] && !o.busy[i] && c.Op == "claim" && c.Agent != "" && !faulted(o.procs[i]) {
			r.viol("C01", "claim-failed", sigWord(firstLine(o.procs[i].Stderr)), "claim by %s failed with something other than lock busy: %s", c.Agent, tail(o.procs[i].Stderr))
		}
		if c.State != nil && *c.State == "todo" {
			reopen = true
		}
		if c.Op != "claim" || !o.ok[i] || o.reply[i] == nil {
			continue
		}
		if id := str(o.reply[i], "id"); id != "" {
			won[id] = append(won[id], i)
			if it := o.pre.Items[id]; it != nil && it.Kind == "epic" {
				r.viol("C01", "epic-claimed", "epic", "claim returned epic %s", id)
			}
		}
	}
	others := false
	for _, c := range o.cmds {
		if c.Op != "claim" && !c.IsRead() && c.Op != "new_task" && c.Op != "new_epic" {
			others = true
		}
	}
	for id, who := range won {
		if len(who) > 1 && !reopen {
			var agents []string
			for _, i := range who {
				agents = append(agents, o.cmds[i].Agent)
			}
			r.viol("C01", "double-hand-out", "double", "task %s was handed to %d claimants in one batch: %v", id, len(who), agents)
		}
		if !others && len(who) == 1 {
			it := o.post.Items[id]
			agent := o.cmds[who[0]].Agent
			if it == nil || it.LState != "doing" || it.LClaimedBy != agent {
				st, cb := "absent", ""
				if it != nil {
					st, cb = it.LState, it.LClaimedBy
				}
				r.viol("C01", "winner-not-holder", "batch", "%s was told it won %s, but afterwards the task is %s claimed by %q", agent, id, st, cb)
			}
		}
	}
}

func firstLine(b []byte) string {
	s := strings.TrimSpace(string(b))
	if i := strings.IndexByte(s, '\n'); i >= 0 {
		s = s[:i]
	}
	// strip paths and ids
	if i := strings.Index(s, ".jsonl"); i >= 0 {
		s = "…" + s[i:]
	}
	return s
}

// ---------------------------------------------------------------- readers (C13)

// candidateLogs: every whole-line state the log passed through between seq
// lo and hi: the physical contents at each change, plus — where one content
// is a byte-prefix of the next — the line-prefixes in between.
func candidateLogs(snaps []logSnap, lo, hi int) [][]byte {
	var out [][]byte
	seen := map[string]bool{}
	add := func(b []byte) {
		// only whole lines count
		if n := bytes.LastIndexByte(b, '\n'); n >= 0 {
			b = b[:n+1]
		} else {
			b = nil
		}
		k := string(b)
		if !seen[k] {
			seen[k] = true
			out = append(out, append([]byte(nil), b...))
		}
	}
	// the state in force at lo: last snapshot with seq <= lo
	start := 0
	for i, s := range snaps {
		if s.seq <= lo {
			start = i
		}
	}
	for i := start; i < len(snaps); i++ {
		s := snaps[i]
		add(s.bytes)
		if s.seq > hi {
			// the first state committed after the reader ended: its content may
			// already have been visible (after the rename, before the unlock)
			break
		}
		// growth by append: intermediate line prefixes. A torn fragment at the
		// end of the earlier state (readers ignore it, the next writer cuts it
		// off before it appends) does not count as content.
		whole := s.bytes
		if n := bytes.LastIndexByte(whole, '\n'); n >= 0 {
			whole = whole[:n+1]
		} else {
			whole = nil
		}
		if i+1 < len(snaps) && bytes.HasPrefix(snaps[i+1].bytes, whole) {
			nb := snaps[i+1].bytes
			for off := len(whole); off < len(nb); off++ {
				// (a blank line adds nothing to the state: no candidate of its own)
				if nb[off] == '\n' && off > 0 && nb[off-1] != '\n' {
					add(nb[:off+1])
				}
			}
		}
	}
	return out
}

func (r *Run) checkReaders(o *batchOutcome) {
	lp := r.logPath()
	for i, c := range o.cmds {
		if c.Op != "list" && c.Op != "show" {
			continue
		}
		p := o.procs[i]
		if p.ExitCode != 0 {
			// a reader may legitimately fail only for reasons that hold in some candidate state (e.g. show of an id that does not exist yet)
		}
		cands := candidateLogs(o.snaps, p.InvokeSeq, p.ReturnSeq)
		final, _ := os.ReadFile(lp)
		match := false
		var expect []string
		for _, cb := range cands {
			if err := os.WriteFile(lp, cb, 0o644); err != nil {
				harnessf("candidate write: %v", err)
			}
			so, se, code := r.W.RunPlain(r.spec(c).Argv, nil, r.cwdFor(c))
			expect = append(expect, fmt.Sprintf("exit %d: %s", code, q(string(so))))
			if code == p.ExitCode && bytes.Equal(so, p.Stdout) && (code == 0 || bytes.Equal(normErr(se), normErr(p.Stderr))) {
				match = true
				break
			}
		}
		os.WriteFile(lp, final, 0o644)
		r.W.Count.Add("c13.candidates", len(cands))
		r.W.Count.Inc("c13.readers_checked")
		if !match {
			what := "output matches no state the store passed through"
			cls := "garbage"
			if p.ExitCode != 0 {
				what = "failed: " + tail(p.Stderr)
				cls = "error-" + sigWord(firstLine(p.Stderr))
			} else if len(bytes.TrimSpace(p.Stdout)) <= 2 {
				cls = "empty"
			}
			r.viol("C13", "reader", c.Op+"|"+cls, "reader %s running beside %v %s; got exit %d %s; candidates (%d): %s", c.Shape(), shapes(o.cmds), what, p.ExitCode, q(string(p.Stdout)), len(cands), strings.Join(expect, " | "))
		}
	}
}

func normErr(b []byte) []byte { return bytes.TrimSpace(b) }

// ---------------------------------------------------------------- linearizability (C01/C02/C07)

type linState struct {
	key string
	m   *Model
}

func modelKey(m *Model) string {
	var parts []string
	for _, id := range m.LiveIDs() {
		it := m.Items[id]
		parts = append(parts, fmt.Sprintf("%s/%v/%s/%s/%s/%s/%v/%d/%s", id, it.IsEpic, it.State, it.ClaimedBy, it.Epic, it.Title, m.DepList(id), len(it.Results), it.Body))
	}
	var pr []string
	for id := range m.Pruned {
		pr = append(pr, id)
	}
	sort.Strings(pr)
	return strings.Join(parts, "\n") + "\n--" + strings.Join(pr, ",") + fmt.Sprint(m.NoStore)
}

type linIn struct {
	idx   int
	cmd   Cmd
	final bool
}

type linOut struct {
	ok    bool
	busy  bool
	ioerr bool // an injected errno reached this process: it may fail (without effect)
	reply map[string]any
	human bool
	first string // first stdout line (human mode ids)
	post  *Obs
}

func (r *Run) checkLinearizable(o *batchOutcome) {
	created := map[string]*ObsItem{}
	for id, it := range o.post.Items {
		created[id] = it
	}
	var ops []porcupine.Operation
	maxRet := 0
	for i, c := range o.cmds {
		if c.IsRead() {
			continue // readers are judged by C13's oracle
		}
		p := o.procs[i]
		first := strings.TrimSpace(strings.SplitN(string(p.Stdout), "\n", 2)[0])
		call, ret := p.InvokeSeq, p.ReturnSeq
		if (r.Sc.Prop == "C01" || r.Sc.Prop == "C08") && o.ok[i] {
			// "at the instant its claim took effect": in these samples a command
			// that wrote is pinned to its commit (the system call that put its
			// events into the log) instead of floating anywhere between its
			// start and its end - a claim that chose its task early and wrote
			// late is judged against the store as it was when it wrote
			for _, e := range p.Events {
				if !e.Visible || !e.Posted || e.Errno != 0 || e.PostSeq <= e.Seq {
					continue
				}
				logWrite := (e.Op == "write" || e.Op == "pwrite") && strings.HasSuffix(e.Path, ".jsonl") && e.Res > 0
				swap := e.Op == "rename" && strings.HasSuffix(e.Path2, ".jsonl")
				if logWrite || swap {
					call, ret = e.Seq, e.PostSeq
				}
			}
			if call != p.InvokeSeq {
				r.W.Count.Inc("lin.pinned_to_commit")
			}
		}
		ops = append(ops, porcupine.Operation{ClientId: i, Input: linIn{idx: i, cmd: c}, Call: int64(call), Output: linOut{ok: o.ok[i], busy: o.busy[i], ioerr: faulted(p), reply: o.reply[i], human: c.Human, first: first}, Return: int64(ret)})
		if p.ReturnSeq > maxRet {
			maxRet = p.ReturnSeq
		}
	}
	if len(ops) == 0 {
		return
	}
	ops = append(ops, porcupine.Operation{ClientId: len(o.cmds), Input: linIn{final: true}, Call: int64(maxRet + 1), Output: linOut{post: o.post}, Return: int64(maxRet + 2)})
	m0 := r.M.Clone()
	nm := porcupine.NondeterministicModel{
		Init: func() []interface{} { return []interface{}{linState{modelKey(m0), m0}} },
		Step: func(state, input, output interface{}) []interface{} {
			st := state.(linState)
			in := input.(linIn)
			out := output.(linOut)
			if in.final {
				if ds := CompareObs(out.post, st.m, true); len(ds) == 0 {
					return []interface{}{st}
				}
				return nil
			}
			var next []interface{}
			for _, n := range linStep(st.m, in.cmd, out, created) {
				next = append(next, linState{modelKey(n), n})
			}
			return next
		},
		Equal: func(a, b interface{}) bool { return a.(linState).key == b.(linState).key },
	}
	res := porcupine.CheckOperationsTimeout(nm.ToModel(), ops, 30*time.Second)
	switch res {
	case porcupine.Ok:
		r.W.Count.Inc("porcupine.ok")
	case porcupine.Unknown:
		r.W.Count.Inc("porcupine.unknown")
	case porcupine.Illegal:
		r.W.Count.Inc("porcupine.illegal")
		prop := "C02"
		switch r.Sc.Prop {
		case "C01", "C06", "C07", "C08", "C09", "C11", "C14", "C15", "C16", "C18", "C20":
			// the batch was generated as this property's conflict scenario
			prop = r.Sc.Prop
		}
		var desc []string
		for i, c := range o.cmds {
			p := o.procs[i]
			desc = append(desc, fmt.Sprintf("[%d..%d] %s -> exit %d %s %s", p.InvokeSeq, p.ReturnSeq, c.String(), p.ExitCode, oneLine(string(p.Stdout), 160), oneLine(firstLine(p.Stderr), 120)))
		}
		ds := CompareObs(o.post, r.M, true)
		_ = ds
		r.viol(prop, "not-linearizable", strings.Join(opsOf(o.cmds), "+"), "no order of the successful commands (consistent with real time) explains the replies and the final state: %s", strings.Join(desc, " || "))
	}
}

func opsOf(cs []Cmd) []string {
	m := map[string]bool{}
	for _, c := range cs {
		m[c.Op] = true
	}
	var s []string
	for k := range m {
		s = append(s, k)
	}
	sort.Strings(s)
	return s
}

// linStep: the states reachable from m by command c given what ergo answered.
func linStep(m *Model, c Cmd, out linOut, created map[string]*ObsItem) []*Model {
	pred := m.Predict(c)
	if !out.ok {
		if out.busy || out.ioerr {
			return []*Model{m}
		}
		if pred.Class == MustOK {
			return nil
		}
		return []*Model{m}
	}
	if pred.Class == MustFail {
		return nil
	}
	bind := func(n *Model, ids []string) *Model {
		if pred.Creates == 1 {
			n.Rename(newID, ids[0])
		} else {
			for j, id := range ids {
				n.Rename(planPlaceholder(j), id)
			}
		}
		for _, id := range ids {
			if it, oi := n.Items[id], created[id]; it != nil && oi != nil {
				it.CreatedAt = oi.CreatedAt
				it.CreatedNs, _ = parseTS(oi.CreatedAt)
				it.UUID = oi.UUID
			}
		}
		return n
	}
	var ids []string
	switch c.Op {
	case "new_task", "new_epic":
		id := str(out.reply, "id")
		if out.human {
			id = out.first
		}
		ids = []string{id}
	case "plan":
		if out.reply != nil {
			ids = append(ids, str(asMap(out.reply["epic"]), "id"))
			for _, t := range asList(out.reply["tasks"]) {
				ids = append(ids, str(asMap(t), "id"))
			}
		}
	case "claim":
		if !out.human {
			if str(out.reply, "status") == "no_ready" {
				if pred.NoReady || pred.Class == Either {
					return []*Model{m}
				}
				return nil
			}
			id := str(out.reply, "id")
			if !pred.ClaimOK[id] {
				return nil
			}
			n := m.Clone()
			n.Items[id].State, n.Items[id].ClaimedBy = "doing", c.Agent
			return []*Model{n}
		}
	case "prune":
		if !out.human && c.Yes {
			got := sortedCopy(strList(out.reply["pruned_ids"]))
			if !eqStrs(got, pred.PrunedIDs) {
				return nil
			}
		}
	}
	if pred.Creates > 0 {
		if len(ids) != pred.Creates {
			return nil
		}
		for _, id := range ids {
			if m.Items[id] != nil || id == "" {
				return nil
			}
		}
	}
	var next []*Model
	for _, alt := range pred.Alts {
		n := alt.Clone()
		if pred.Creates > 0 {
			n = bind(n, ids)
		}
		next = append(next, n)
	}
	return next
}

// ---------------------------------------------------------------- sample generation

type schedPlan struct {
	strategy string
	seed     uint64
	a, k     int
	b, kb    int
	faults   []Fault
}

// faulted: did an injected errno reach this process?
func faulted(p *Proc) bool {
	for _, e := range p.Events {
		if strings.HasPrefix(e.Act, "err:") {
			return true
		}
	}
	return false
}

func genBatch(prop string, g *Gen, m *Model, rng *SplitMix) []Cmd {
	var cmds []Cmd
	agentN := 0
	agent := func() string { agentN++; return fmt.Sprintf("w%d@h", agentN) }
	mutation := func() Cmd {
		for {
			st := g.Next(m)
			if st.Cmd != nil && !st.Cmd.IsRead() {
				c := *st.Cmd
				c.Human = false
				return c
			}
		}
	}
	taskRef := func() string { return g.ref(m, isTask, false) }
	switch prop {
	case "C01":
		n := 2 + rng.Intn(4)
		for i := 0; i < n; i++ {
			c := Cmd{Op: "claim", Agent: agent()}
			if rng.Chance(2, 5) {
				e := g.ref(m, isEpic, false)
				// prefer an epic that itself depends on another epic: its tasks
				// are ready only through the epic level
				if de, ok := g.liveOf(m, func(it *MItem) bool { return it.IsEpic && len(it.Deps) > 0 }); ok && rng.Chance(2, 3) {
					e = de
				}
				c.Epic = &e
			}
			cmds = append(cmds, c)
		}
		if rng.Chance(1, 2) {
			// "and the oldest such task": a writer after which another task is
			// the oldest ready one - overall, or within the epic one of the
			// claimers is scoped to - racing the claimers
			scope := ""
			for _, c := range cmds {
				if c.Epic != nil && rng.Chance(2, 3) {
					scope = *c.Epic
				}
			}
			if w, ok := g.aimOldestChange(m, scope); ok {
				cmds = append(cmds, w)
			} else if w, ok := g.aimOldestChange(m, ""); ok {
				cmds = append(cmds, w)
			}
		}
		extra := rng.Intn(3)
		for i := 0; i < extra; i++ {
			switch rng.Intn(6) {
			case 0:
				cmds = append(cmds, Cmd{Op: "new_task", Title: sp(g.text("title")), Claim: sp(agent())})
			case 1:
				cmds = append(cmds, Cmd{Op: "new_task", Title: sp(g.text("title"))})
			case 2:
				cmds = append(cmds, Cmd{Op: "set", ID: taskRef(), State: sp(g.oneOf("todo", "done", "canceled")), Agent: agent()})
			case 3:
				cmds = append(cmds, Cmd{Op: "claim_id", ID: taskRef(), Agent: agent()})
			case 4:
				cmds = append(cmds, Cmd{Op: "prune", Yes: true})
			case 5:
				cmds = append(cmds, Cmd{Op: "compact"})
			}
		}
	case "C07":
		pred := isTask
		if rng.Chance(1, 4) {
			pred = isEpic
		}
		a, b, c := g.ref(m, pred, false), g.ref(m, pred, false), g.ref(m, pred, false)
		switch rng.Intn(4) {
		case 0:
			cmds = []Cmd{{Op: "sequence", IDs: []string{a, b}}, {Op: "sequence", IDs: []string{b, a}}}
		case 1:
			cmds = []Cmd{{Op: "sequence", IDs: []string{a, b}}, {Op: "sequence", IDs: []string{b, c}}, {Op: "sequence", IDs: []string{c, a}}}
		case 2:
			cmds = []Cmd{{Op: "sequence", IDs: []string{a, b, c}}, {Op: "sequence", IDs: []string{c, a}}}
		case 3:
			cmds = []Cmd{{Op: "sequence", IDs: []string{a, b}}, {Op: "prune", Yes: true}, {Op: "sequence_rm", IDs: []string{a, b}}}
		}
		if rng.Chance(1, 3) {
			cmds = append(cmds, mutation())
		}
	case "C13":
		nw := 1 + rng.Intn(2)
		for i := 0; i < nw; i++ {
			switch rng.Intn(7) {
			case 0:
				cmds = append(cmds, Cmd{Op: "compact"})
			case 1:
				cmds = append(cmds, Cmd{Op: "plan", Plan: g.planDoc(false)})
			case 2:
				cmds = append(cmds, Cmd{Op: "prune", Yes: true})
			case 3:
				cmds = append(cmds, Cmd{Op: "claim", Agent: agent()})
			case 4, 6:
				// an event that is mostly text (multi-byte when the sample's text
				// class says so): a reader that arrives in the middle of this
				// append sees a line cut inside the text
				cmds = append(cmds, Cmd{Op: "new_task", Mode: "json", Title: sp(g.text("title")), Body: sp(g.text("body") + " " + g.text("body"))})
			default:
				cmds = append(cmds, mutation())
			}
		}
		nr := 1 + rng.Intn(2)
		for i := 0; i < nr; i++ {
			switch rng.Intn(4) {
			case 0:
				cmds = append(cmds, Cmd{Op: "list", LAll: true})
			case 1:
				cmds = append(cmds, Cmd{Op: "list", Human: true, LAll: rng.Chance(1, 2)})
			case 2:
				cmds = append(cmds, Cmd{Op: "show", ID: g.ref(m, anyItem, false)})
			case 3:
				cmds = append(cmds, Cmd{Op: "list", LReady: true})
			}
		}
	case "C06":
		// conflicting state/claim requests on one task
		t := taskRef()
		n := 2 + rng.Intn(3)
		for i := 0; i < n; i++ {
			switch rng.Intn(5) {
			case 0:
				cmds = append(cmds, Cmd{Op: "claim_id", ID: t, Agent: agent()})
			case 1:
				cmds = append(cmds, Cmd{Op: "set", ID: t, Claim: sp(g.oneOf("", agent()))})
			case 2:
				cmds = append(cmds, Cmd{Op: "claim", Agent: agent()})
			default:
				cmds = append(cmds, Cmd{Op: "set", ID: t, State: sp(g.state()), Agent: g.oneOf("", agent())})
			}
		}
	case "C11":
		cmds = []Cmd{{Op: "plan", Plan: g.planDoc(false)}}
		if rng.Chance(1, 3) {
			cmds = append(cmds, Cmd{Op: "plan", Plan: g.planDoc(rng.Chance(1, 3))})
		}
		n := 1 + rng.Intn(2)
		for i := 0; i < n; i++ {
			cmds = append(cmds, mutation())
		}
	case "C14":
		// an epic losing its last child / being pruned while tasks move into it
		e := g.ref(m, isEpic, false)
		if ce, ok := g.liveOf(m, func(it *MItem) bool {
			if !it.IsEpic {
				return false
			}
			for _, t := range m.Tasks() {
				if t.Epic == it.ID && !finished(t.State) {
					return false
				}
			}
			return true
		}); ok && rng.Chance(3, 4) {
			e = ce // an epic that prune --yes will remove
		}
		nt := Cmd{Op: "new_task", Title: sp(g.text("title")), Epic: &e, Mode: g.oneOf("json", "flags", "bodystdin")}
		if nt.Mode == "bodystdin" {
			nt.Body = sp(g.text("body"))
		}
		cmds = []Cmd{{Op: "prune", Yes: true}, nt}
		if t, ok := g.liveOf(m, isTask); ok {
			cmds = append(cmds, Cmd{Op: "set", ID: t, Epic: &e})
		}
		if t, ok := g.liveOf(m, func(it *MItem) bool { return !it.IsEpic && it.Epic != "" && !finished(it.State) }); ok && rng.Chance(1, 2) {
			cmds = append(cmds, Cmd{Op: "set", ID: t, State: sp("done")})
		}
	case "C15":
		// two requests that are each fine but together close a waits-for cycle
		e1, e2 := g.ref(m, isEpic, false), g.ref(m, isEpic, false)
		t1, _ := g.liveOf(m, func(it *MItem) bool { return !it.IsEpic && "#"+fmt.Sprint(it.Ord) != "" && m.Resolve(e1) == it.Epic })
		t2, _ := g.liveOf(m, func(it *MItem) bool { return !it.IsEpic && m.Resolve(e2) == it.Epic })
		if t1 == "" {
			t1 = taskRef()
		}
		if t2 == "" {
			t2 = taskRef()
		}
		cmds = []Cmd{{Op: "sequence", IDs: []string{t2, t1}}, {Op: "sequence", IDs: []string{e1, e2}}}
		switch rng.Intn(3) {
		case 0:
			cmds = append(cmds, Cmd{Op: "set", ID: taskRef(), Epic: &e1})
		case 1:
			cmds = append(cmds, Cmd{Op: "new_task", Title: sp(g.text("title")), Epic: &e2})
		}
	case "C20":
		t := taskRef()
		n := 2 + rng.Intn(2)
		for i := 0; i < n; i++ {
			cc := Cmd{Op: "set", ID: t}
			g.addResult(&cc)
			if rng.Chance(1, 3) {
				cc.State = sp(g.state())
				cc.Agent = agent()
			}
			cmds = append(cmds, cc)
		}
		if rng.Chance(1, 2) {
			cmds = append(cmds, Cmd{Op: "compact"})
		}
	case "C18":
		if m.NoStore {
			// a brand-new project: init and the first creations arrive together
			cmds = []Cmd{{Op: "init"}, {Op: "new_task", Title: sp(g.text("title"))}}
			if rng.Chance(1, 2) {
				cmds = append(cmds, Cmd{Op: "new_epic", Title: sp(g.text("title"))})
			}
			if rng.Chance(1, 3) {
				cmds = append(cmds, Cmd{Op: "init"})
			}
			break
		}
		// several commands arrive at a store whose lock file is missing
		n := 2 + rng.Intn(2)
		for i := 0; i < n; i++ {
			cmds = append(cmds, mutation())
		}
		if rng.Chance(1, 2) {
			cmds = append(cmds, Cmd{Op: "init"})
		}
		if rng.Chance(1, 2) {
			cmds = append(cmds, Cmd{Op: g.oneOf("compact", "compact", "plan"), Plan: g.planDoc(false)})
			if cmds[len(cmds)-1].Op == "compact" {
				cmds[len(cmds)-1].Plan = nil
			}
		}
		// the commands that replace or create files go first: they are the ones
		// whose every step the sweeps park (the first two processes are swept)
		sort.SliceStable(cmds, func(i, j int) bool {
			rank := func(c Cmd) int {
				switch c.Op {
				case "compact", "plan":
					return 0
				case "init":
					return 1
				}
				return 2
			}
			return rank(cmds[i]) < rank(cmds[j])
		})
	case "C09":
		// prune racing writers that make its targets ineligible
		cmds = []Cmd{{Op: "prune", Yes: true}}
		if t, ok := g.liveOf(m, func(it *MItem) bool { return !it.IsEpic && finished(it.State) }); ok {
			cmds = append(cmds, Cmd{Op: "set", ID: t, State: sp("todo")})
		}
		if e, ok := g.liveOf(m, func(it *MItem) bool {
			if !it.IsEpic {
				return false
			}
			for _, t := range m.Tasks() {
				if t.Epic == it.ID && !finished(t.State) {
					return false
				}
			}
			return true
		}); ok {
			cmds = append(cmds, Cmd{Op: "new_task", Title: sp(g.text("title")), Epic: &e})
		}
		if len(cmds) < 3 {
			cmds = append(cmds, mutation())
		}
	case "C08":
		// claim against a writer after which a different (older) task is the
		// oldest ready one: dependency finished or unlinked, reopen, move
		c := Cmd{Op: "claim", Agent: agent()}
		scope := ""
		if rng.Chance(1, 3) {
			scope = g.ref(m, isEpic, false)
			if scope != "#999" {
				c.Epic = &scope
			} else {
				scope = ""
			}
		}
		cmds = append(cmds, c)
		if w, ok := g.aimOldestChange(m, scope); ok {
			cmds = append(cmds, w)
		} else {
			cmds = append(cmds, mutation())
		}
		if rng.Chance(1, 2) {
			cmds = append(cmds, Cmd{Op: "claim", Agent: agent()})
		}
	case "C16":
		// replies that are computed from a read of the store: a competitor
		// changing what they report while the command is under way
		switch rng.Intn(3) {
		case 0:
			cmds = []Cmd{{Op: "prune", Yes: true}}
			if t, ok := g.liveOf(m, func(it *MItem) bool { return !it.IsEpic && finished(it.State) }); ok {
				cmds = append(cmds, Cmd{Op: "set", ID: t, State: sp("todo")})
			}
			if t, ok := g.liveOf(m, func(it *MItem) bool { return !it.IsEpic && it.State == "todo" && it.ClaimedBy == "" }); ok {
				cmds = append(cmds, Cmd{Op: "set", ID: t, State: sp(g.oneOf("done", "canceled"))})
			}
			if rng.Chance(1, 2) {
				cmds = append(cmds, Cmd{Op: "new_task", Mode: "json", Title: sp(g.text("title")), State: sp("done")})
			}
			if len(cmds) < 3 {
				cmds = append(cmds, mutation())
			}
		default:
			for n := 2 + rng.Intn(3); n > 0; n-- {
				cmds = append(cmds, mutation())
			}
		}
	case "C10":
		// a lock holder is stalled inside its lock section while the commands
		// under test run: they must fail with lock busy and change nothing
		// (commands whose reply is built after the write are the interesting
		// ones: set --json and claim <id> re-read the store once they are done)
		t := taskRef()
		var first Cmd
		switch rng.Intn(9) {
		case 7, 8:
			// the oldest-ready claim, and somebody finishing and pruning the very
			// task it takes while it is still composing its reply
			first = Cmd{Op: "claim", Agent: agent()}
			best := ""
			for id := range m.OldestReady("") {
				if best == "" || id < best {
					best = id
				}
			}
			if best != "" {
				t = g.refOf(m, best)
			}
			cmds = []Cmd{first, {Op: "set", ID: t, State: sp("done"), Agent: agent()}, {Op: "prune", Yes: true}}
			return cmds
		case 0, 1:
			first = Cmd{Op: "set", ID: t, State: sp(g.oneOf("done", "blocked", "todo", "canceled")), Agent: agent()}
		case 2:
			first = Cmd{Op: "claim_id", ID: t, Agent: agent()}
		case 3:
			first = Cmd{Op: "plan", Plan: g.planDoc(false)}
		case 4:
			first = Cmd{Op: "sequence", IDs: []string{taskRef(), taskRef(), taskRef()}}
		case 5:
			first = Cmd{Op: "new_task", Title: sp(g.text("title")), Claim: sp(agent())}
		default:
			first = mutation()
		}
		cmds = []Cmd{first}
		if first.Op == "set" && first.State != nil && finished(*first.State) && rng.Chance(2, 3) {
			// the task may be pruned as soon as it is finished - while the
			// command that finished it is still composing its reply
			cmds = append(cmds, Cmd{Op: "prune", Yes: true})
		}
		n := 1 + rng.Intn(3)
		for i := 0; i < n; i++ {
			cmds = append(cmds, mutation())
		}
	default: // C02
		switch rng.Intn(9) {
		case 8:
			// prune against a writer that makes one of its targets ineligible
			// (a child for a childless epic, a reopened task)
			cmds = []Cmd{{Op: "prune", Yes: true}}
			if e, ok := g.liveOf(m, func(it *MItem) bool {
				if !it.IsEpic {
					return false
				}
				for _, t := range m.Tasks() {
					if t.Epic == it.ID && !finished(t.State) {
						return false
					}
				}
				return true
			}); ok {
				cmds = append(cmds, Cmd{Op: "new_task", Title: sp(g.text("title")), Epic: &e})
			}
			if t, ok := g.liveOf(m, func(it *MItem) bool { return !it.IsEpic && finished(it.State) }); ok {
				cmds = append(cmds, Cmd{Op: "set", ID: t, State: sp("todo")})
			}
			for len(cmds) < 3 {
				cmds = append(cmds, mutation())
			}
		case 0:
			cmds = []Cmd{{Op: "compact"}, mutation(), mutation()}
		case 1:
			cmds = []Cmd{{Op: "plan", Plan: g.planDoc(false)}, mutation(), {Op: "claim", Agent: agent()}}
		case 2:
			t := g.ref(m, func(it *MItem) bool { return !it.IsEpic && finished(it.State) }, false)
			cmds = []Cmd{{Op: "prune", Yes: true}, {Op: "set", ID: t, State: sp("todo")}, mutation()}
		case 3:
			cmds = []Cmd{{Op: "new_task", Title: sp(g.text("title")), Claim: sp(agent())}, {Op: "claim", Agent: agent()}, {Op: "claim", Agent: agent()}}
		case 4:
			t := taskRef()
			cmds = []Cmd{{Op: "set", ID: t, State: sp(g.state()), Agent: agent()}, {Op: "set", ID: t, Title: sp(g.text("title")), State: sp(g.state()), Agent: agent()}}
		case 5:
			a, b := taskRef(), taskRef()
			cmds = []Cmd{{Op: "sequence", IDs: []string{a, b}}, {Op: "sequence", IDs: []string{b, a}}, mutation()}
		case 6:
			cmds = []Cmd{{Op: "init"}, mutation(), {Op: "compact"}}
		default:
			n := 2 + rng.Intn(4)
			for i := 0; i < n; i++ {
				cmds = append(cmds, mutation())
			}
		}
	}
	for i := range cmds {
		argvSafe(&cmds[i])
	}
	return cmds
}

// runConcSample: one sample = a seeded pre-state + one batch; many schedules
// of that batch are executed from the same snapshot: seeded random ones and
// the complete single-preemption sweep of designated processes.
func runConcSample(bin, prop string, seed uint64, thorough bool) *RunReport {
	sc, rng := newScenario(prop, "conc", seed)
	g := NewGen(rng.Uint64())
	g.BadBias, g.Human = 4, 0
	g.W["list"], g.W["show"], g.W["where"], g.W["prune_dry"], g.W["init"], g.W["file"] = 0, 0, 0, 0, 0, 1
	g.W["new_task"] = 30
	if rng.Chance(1, 2) || prop == "C13" && rng.Chance(1, 2) {
		// multi-byte and control characters in what writers write: a reader or
		// a short write may stop in the middle of one
		g.Text = "unicode"
	}
	sc.Config.Clock = []string{"fine", "coarse", "second", "fine", "back", "leap"}[rng.Intn(6)]
	if (prop == "C13" || prop == "C02") && rng.Chance(1, 3) {
		sc.Config.Layout = "legacy" // a store that still uses events.jsonl
	}
	if prop == "C18" {
		sc.Config.Layout = []string{"legacy", "legacy", "both", "", "nested", "legacy+nested", "fresh", "fresh"}[rng.Intn(8)]
	}
	if prop == "C13" || prop == "C02" {
		if rng.Chance(1, 2) {
			sc.Config.ShortWriteDen = 2
		}
		if rng.Chance(1, 3) {
			sc.Config.ShortReadDen = 3
		}
	}
	r := NewRun(bin, sc)
	defer r.Close()
	r.InitStore()
	if (prop == "C01" || prop == "C13" || prop == "C02") && rng.Chance(1, 2) || prop == "C08" && rng.Chance(3, 4) {
		// two-level shapes: epics, tasks inside them, epic-to-epic and
		// cross-epic dependencies (readiness through the epic level)
		for _, st := range g.twoLevelPrelude() {
			sc.Steps = append(sc.Steps, st)
			r.ExecStep(st)
		}
	}
	nsetup := 4 + rng.Intn(10)
	if r.M.NoStore {
		nsetup = 0
	}
	for i := 0; i < nsetup; i++ {
		st := g.Next(r.M)
		sc.Steps = append(sc.Steps, st)
		r.ExecStep(st)
	}
	if prop == "C14" || prop == "C09" || prop == "C15" {
		// make sure the shapes the conflict needs exist: a childless epic (which
		// prune --yes removes), and for C15 two epics with a task each
		extra := []Cmd{{Op: "new_epic", Title: sp(g.text("title"))}}
		if prop == "C15" {
			extra = append(extra, Cmd{Op: "new_epic", Title: sp(g.text("title"))})
			for k := 0; k < 2; k++ {
				e := fmt.Sprintf("#%d", len(r.M.Order)+k)
				extra = append(extra, Cmd{Op: "new_task", Title: sp(g.text("title")), Epic: &e})
			}
		}
		for i := range extra {
			st := Step{Cmd: &extra[i]}
			sc.Steps = append(sc.Steps, st)
			r.ExecStep(st)
		}
	}
	if prop == "C18" && !r.M.NoStore && rng.Chance(1, 2) {
		st := Step{Disk: &DiskOp{Kind: "lock_missing"}}
		sc.Steps = append(sc.Steps, st)
		r.ExecStep(st)
	}
	inflated := false
	if prop == "C01" && rng.Chance(1, 4) || prop == "C02" && rng.Chance(1, 6) || prop != "C01" && prop != "C02" && prop != "C13" && !r.M.NoStore && len(r.M.Tasks()) > 0 && rng.Chance(1, 8) {
		// (log length is part of every concurrent property's quantifier: a long
		// replay gives the runtime of the lock holder time for a GC cycle)
		inflated = true
		n := 12 + rng.Intn(10)
		if rng.Chance(1, 3) {
			n = 2 + rng.Intn(4) // a few hundred KB: several reads, no GC yet
		}
		st := Step{Disk: &DiskOp{Kind: "inflate", N: n, Pos: rng.Intn(1 << 16)}}
		sc.Steps = append(sc.Steps, st)
		r.ExecStep(st)
	}
	if (prop == "C13" && rng.Chance(1, 3) || prop == "C02" && rng.Chance(1, 5)) && !r.M.NoStore {
		// the pre-state carries the torn tail of an append that was killed: the
		// first writer of the batch repairs it while readers are under way
		frag := `{"type":"new_task","ts":"2030-01-01T00:00:00Z","data":{"id":"QQQQQQ","uuid":"00000000-0000-4000-8000-000000000000","epic_id":"","state":"todo","title":"torn away","bo`
		if rng.Chance(1, 3) {
			// a fragment longer than a block (the dead writer was appending a
			// large body)
			frag += `dy":"` + strings.Repeat("lorem ipsum dolor sit amet ", 200+rng.Intn(600))
		}
		st := Step{Disk: &DiskOp{Kind: "tail_fragment", Arg: frag}}
		sc.Steps = append(sc.Steps, st)
		r.ExecStep(st)
	}
	r.VL.V = nil
	r.seenSig = map[string]bool{}
	cmds := genBatch(prop, g, r.M, rng)
	snap := r.Snapshot()
	base := len(sc.Steps)
	// schedules
	var plans []schedPlan
	nrand := 6
	if thorough {
		nrand = 20
	}
	for i := 0; i < nrand; i++ {
		s := "rand"
		if i%2 == 1 {
			s = "sticky"
		}
		plans = append(plans, schedPlan{strategy: s, seed: rng.Uint64()})
	}
	// and two executions without any overlap, in seeded orders: everybody
	// succeeds, the batch is a sequential history
	for i := 0; i < 2; i++ {
		plans = append(plans, schedPlan{strategy: "serial", seed: rng.Uint64()})
	}
	// single-preemption sweeps: which processes?
	var sweepers []int
	for i, c := range cmds {
		switch prop {
		case "C01":
			if c.Op == "claim" && len(sweepers) < 2 {
				sweepers = append(sweepers, i)
			}
		case "C10", "C09":
			if i == 0 {
				sweepers = append(sweepers, i) // the stalled lock holder / the pruner
			}
		case "C13":
			sweepers = append(sweepers, i) // readers against writers and writers against readers
		default:
			if len(sweepers) < 2 {
				sweepers = append(sweepers, i)
			}
		}
	}
	if inflated && len(sweepers) > 1 {
		sweepers = sweepers[:1] // long logs make every execution slow: one sweep only
	}
	for _, a := range sweepers {
		// how many visible events does A have when run alone?
		r.Restore(snap)
		amb := r.W.Amb
		r.W.Amb = Ambient{}
		p := r.W.RunOne(r.spec(literal(cmds[a], r.M)))
		r.W.Amb = amb
		k := p.NVis
		if amb.ShortWriteDen > 0 && !cmds[a].IsRead() {
			k += 4 // short writes split an append into several calls: sweep those too
		}
		for i := 0; i <= k; i++ {
			plans = append(plans, schedPlan{strategy: "preempt", seed: rng.Uint64(), a: a, k: i})
			if a == sweepers[0] && len(cmds) > 2 {
				plans = append(plans, schedPlan{strategy: "preempts", seed: rng.Uint64(), a: a, k: i})
			}
		}
		// I/O errors inside a concurrent batch: a read or open of the log
		// returns EIO/EMFILE to A while the others
		// run under a seeded schedule; A must fail without effect (or succeed
		// completely), and nobody else may be misled. fsync/close errors are not
		// injected here: whether the data they follow counts is C03's subject.
		if prop != "C13" && a == sweepers[0] {
			var cand []*Ev
			for _, e := range p.VisibleEvents() {
				if e.IsMutating() && filepath.Base(e.Path) != "lock" {
					// only calls BEFORE the command's first change to the store:
					// a failure there must leave no effect at all. What an error
					// after the first write may leave behind is C03's subject.
					break
				}
				if (e.Op == "read" || e.Op == "pread" || e.Op == "openat") && strings.Contains(e.Path, ".jsonl") {
					cand = append(cand, e)
				}
			}
			for n := 0; n < 4 && len(cand) > 0; n++ {
				j := rng.Intn(len(cand))
				e := cand[j]
				cand = append(cand[:j], cand[j+1:]...)
				errno := int(syscall.EIO)
				if e.Op == "openat" && rng.Chance(1, 2) {
					errno = int(syscall.EMFILE)
				}
				plans = append(plans, schedPlan{strategy: []string{"rand", "sticky", "serial", "serial"}[rng.Intn(4)], seed: rng.Uint64(),
					faults: []Fault{{Proc: a, K: e.K, Act: fmt.Sprintf("err:%d", errno), Op: e.Op, Note: "errno inside a concurrent batch"}}})
			}
		}
		// two preemptions: a competitor B parked right after taking the lock
		// while A continues from each of its points k
		if prop != "C13" && a == sweepers[0] && !inflated {
			b := -1
			for off := 1; off < len(cmds); off++ {
				j := (a + off) % len(cmds)
				if !cmds[j].IsRead() {
					b = j
					break
				}
			}
			if b >= 0 {
				r.Restore(snap)
				r.W.Amb = Ambient{}
				pb := r.W.RunOne(r.spec(literal(cmds[b], r.M)))
				r.W.Amb = amb
				kb := -1
				for _, e := range pb.VisibleEvents() {
					if e.Op == "flock" && e.Flags&syscall.LOCK_UN == 0 && e.Errno == 0 {
						kb = e.K + 1
						break
					}
				}
				if kb > 0 {
					for i := 1; i <= k; i++ {
						plans = append(plans, schedPlan{strategy: "preempt2", seed: rng.Uint64(), a: a, k: i, b: b, kb: kb})
					}
				}
			}
		}
	}
	execs := 0
	ilv := map[string]bool{}
	for _, pl := range plans {
		r.Restore(snap)
		nv := len(r.VL.V)
		b := &BatchSpec{Cmds: cmds, Strategy: pl.strategy, SchedSeed: pl.seed, PreemptA: pl.a, PreemptK: pl.k, PreemptB: pl.b, PreemptKB: pl.kb, Faults: pl.faults}
		if len(pl.faults) > 0 {
			r.W.Count.Inc("conc.errno_plans")
		}
		r.W.IlvHash.Reset()
		r.W.lastRun = -1
		r.DoBatch(b)
		execs++
		ilv[fmt.Sprintf("%x", r.W.IlvHash.Sum(nil)[:8])] = true
		for i := nv; i < len(r.VL.V); i++ {
			rb := *b
			rb.Strategy = "replay"
			rb.Cmds = append([]Cmd(nil), cmds...)
			rb.Decisions = append([]int(nil), b.Decisions...)
			steps := append(append([]Step{}, sc.Steps[:base]...), Step{Batch: &rb})
			r.violScen = append(r.violScen, steps)
		}
	}
	rep := r.Report()
	rep.Execs = execs
	rep.NonTrivial = execs > 0
	rep.Extra = map[string]int{"schedules": len(plans), "samples": 1, "interleavings_in_sample": len(ilv)}
	rep.IlvSet = ilv
	full := sc.Clone()
	if len(r.VL.V) > 0 && len(r.violScen) > 0 {
		full.Steps = r.violScen[0]
		rep.PerViolScen = r.violScen
	} else {
		full.Steps = append(full.Steps, Step{Batch: &BatchSpec{Cmds: cmds, Strategy: "rand"}, Note: fmt.Sprintf("%d schedules explored", len(plans))})
	}
	rep.Sc = full
	return rep
}

// ReplayConc replays a recorded concurrent scenario.
func ReplayConc(bin string, sc *Scenario) *RunReport {
	r := NewRun(bin, sc)
	defer r.Close()
	r.InitStore()
	for _, st := range sc.Steps {
		if st.Batch != nil {
			// violations of the sequential set-up phase belong to other checks
			r.VL.V = nil
			r.seenSig = map[string]bool{}
		}
		r.ExecStep(st)
	}
	return r.Report()
}

var _ = json.Marshal
var _ = syscall.O_APPEND
