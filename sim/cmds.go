package main

// Commands as data: what a scenario says, how it becomes argv + stdin, and how
// replies are read back.

import (
	"bytes"
	"encoding/json"
	"fmt"
	"io"
	"sort"
	"strconv"
	"strings"
)

// Cmd is one ergo invocation. Item references are symbolic: "#n" is the n-th
// item (0-based) ever created in this scenario (model creation order, pruned
// ones included); anything else is a literal id.
type Cmd struct {
	Op    string   `json:"op"`             // init new_task new_epic set claim claim_id sequence sequence_rm plan prune compact list show where quickstart
	Mode  string   `json:"mode,omitempty"` // json (default) | flags | bodystdin
	ID    string   `json:"id,omitempty"`
	IDs   []string `json:"ids,omitempty"`
	Title *string  `json:"title,omitempty"`
	Body  *string  `json:"body,omitempty"`
	Epic  *string  `json:"epic,omitempty"`
	State *string  `json:"state,omitempty"`
	Claim *string  `json:"claim,omitempty"`
	RPath *string  `json:"rpath,omitempty"`
	RSum  *string  `json:"rsum,omitempty"`
	Agent string   `json:"agent,omitempty"`
	Yes   bool     `json:"yes,omitempty"`
	Human bool     `json:"human,omitempty"` // no --json
	Quiet bool     `json:"quiet,omitempty"`
	// list flags
	LAll   bool `json:"lall,omitempty"`
	LReady bool `json:"lready,omitempty"`
	LEpics bool `json:"lepics,omitempty"`
	// raw stdin override (malformed JSON, unknown keys, several values, raw UTF-8 ...)
	Raw    *string `json:"raw,omitempty"`
	RawBad bool    `json:"raw_bad,omitempty"` // the raw stdin is not one well-formed, known-keys-only JSON object: must be rejected
	// plan document
	Plan *PlanDoc `json:"plan,omitempty"`
	// where to start and how to spell the store
	Sub     string   `json:"sub,omitempty"`     // cwd relative to project root ("" = root)
	DirMode string   `json:"dirmode,omitempty"` // "" | abs | rel | ergo | absergo | slash | dotdot
	Extra   []string `json:"extra,omitempty"`   // extra raw args appended (conflicting flags etc.)
	// Loose: an input the documentation does not define (field flags next to
	// JSON on stdin). The outcome is not predicted; a failure must still change
	// nothing and every invariant must hold on the observation that follows.
	Loose bool `json:"loose,omitempty"`
}

type PlanTask struct {
	Title *string  `json:"title,omitempty"`
	Body  *string  `json:"body,omitempty"`
	After []string `json:"after,omitempty"`
}

type PlanDoc struct {
	Title *string    `json:"title,omitempty"`
	Body  *string    `json:"body,omitempty"`
	Tasks []PlanTask `json:"tasks"`
}

func sp(s string) *string { return &s }

// Bodies of many megabytes (the "oversized" text class) are written to replay
// files in run-length form: {"body":"oversized ","body_x":N} stands for the
// prefix followed by N times 'x'.
type cmdAlias Cmd

type cmdWire struct {
	cmdAlias
	BodyX int `json:"body_x,omitempty"`
}

func (c Cmd) MarshalJSON() ([]byte, error) {
	w := cmdWire{cmdAlias: cmdAlias(c)}
	if c.Body != nil && len(*c.Body) > 1<<20 {
		b := *c.Body
		n := 0
		for n < len(b) && b[len(b)-1-n] == 'x' {
			n++
		}
		if n > 1<<20 {
			head := b[:len(b)-n]
			w.Body = &head
			w.BodyX = n
		}
	}
	return json.Marshal(w)
}

func (c *Cmd) UnmarshalJSON(data []byte) error {
	var w cmdWire
	if err := json.Unmarshal(data, &w); err != nil {
		return err
	}
	*c = Cmd(w.cmdAlias)
	if w.BodyX > 0 {
		head := ""
		if c.Body != nil {
			head = *c.Body
		}
		full := head + strings.Repeat("x", w.BodyX)
		c.Body = &full
	}
	return nil
}

func (c Cmd) String() string {
	b, _ := json.Marshal(c)
	return string(b)
}

// Short gives a compact shape name for statistics and signatures.
func (c Cmd) Shape() string {
	s := c.Op
	if c.Mode != "" && c.Mode != "json" {
		s += "/" + c.Mode
	}
	var f []string
	if c.Title != nil {
		f = append(f, "title")
	}
	if c.Body != nil {
		f = append(f, "body")
	}
	if c.Epic != nil {
		f = append(f, "epic")
	}
	if c.State != nil {
		f = append(f, "state="+*c.State)
	}
	if c.Claim != nil {
		if *c.Claim == "" {
			f = append(f, "claim=\"\"")
		} else {
			f = append(f, "claim")
		}
	}
	if c.RPath != nil || c.RSum != nil {
		f = append(f, "result")
	}
	if c.Agent != "" {
		f = append(f, "agent")
	}
	if c.Yes {
		f = append(f, "yes")
	}
	if c.Raw != nil {
		f = append(f, "raw")
	}
	if len(f) > 0 {
		s += "{" + strings.Join(f, ",") + "}"
	}
	return s
}

// IsRead says whether the command is documented as read-only.
func (c Cmd) IsRead() bool {
	switch c.Op {
	case "list", "show", "where", "quickstart":
		return true
	case "prune":
		return !c.Yes
	}
	return false
}

type Resolver func(ref string) string

// orderedJSON renders the task-input object with only the provided fields.
func taskInputJSON(c Cmd, resolve Resolver) []byte {
	var buf bytes.Buffer
	buf.WriteByte('{')
	first := true
	add := func(k string, v *string) {
		if v == nil {
			return
		}
		if !first {
			buf.WriteByte(',')
		}
		first = false
		kb, _ := json.Marshal(k)
		buf.Write(kb)
		buf.WriteByte(':')
		buf.Write(jsonString(*v))
	}
	add("title", c.Title)
	add("body", c.Body)
	if c.Epic != nil {
		e := resolve(*c.Epic)
		add("epic", &e)
	}
	add("state", c.State)
	add("claim", c.Claim)
	add("result_path", c.RPath)
	add("result_summary", c.RSum)
	buf.WriteByte('}')
	return buf.Bytes()
}

// jsonString encodes without HTML escaping and keeps valid UTF-8 raw.
func jsonString(s string) []byte {
	var buf bytes.Buffer
	enc := json.NewEncoder(&buf)
	enc.SetEscapeHTML(false)
	enc.Encode(s)
	return bytes.TrimRight(buf.Bytes(), "\n")
}

func planJSON(p *PlanDoc) []byte {
	var buf bytes.Buffer
	enc := json.NewEncoder(&buf)
	enc.SetEscapeHTML(false)
	enc.Encode(p)
	return bytes.TrimRight(buf.Bytes(), "\n")
}

// Render turns the command into argv (without binary) and stdin.
func (c Cmd) Render(resolve Resolver, dirArg string) (argv []string, stdin []byte) {
	if !c.Human {
		argv = append(argv, "--json")
	}
	if c.Quiet {
		argv = append(argv, "--quiet")
	}
	if dirArg != "" {
		argv = append(argv, "--dir="+dirArg)
	}
	flagFields := func(withBody bool) {
		if c.Title != nil {
			argv = append(argv, "--title="+*c.Title)
		}
		if withBody && c.Body != nil {
			argv = append(argv, "--body="+*c.Body)
		}
		if c.Epic != nil {
			argv = append(argv, "--epic="+resolve(*c.Epic))
		}
		if c.State != nil {
			argv = append(argv, "--state="+*c.State)
		}
		if c.Claim != nil {
			argv = append(argv, "--claim="+*c.Claim)
		}
		if c.RPath != nil {
			argv = append(argv, "--result-path="+*c.RPath)
		}
		if c.RSum != nil {
			argv = append(argv, "--result-summary="+*c.RSum)
		}
	}
	agent := func() {
		if c.Agent != "" {
			argv = append(argv, "--agent="+c.Agent)
		}
	}
	input := func() {
		switch c.Mode {
		case "flags":
			flagFields(true)
		case "bodystdin":
			argv = append(argv, "--body-stdin")
			flagFields(false)
			if c.Body != nil {
				stdin = []byte(*c.Body)
			} else {
				stdin = []byte{}
			}
		default:
			stdin = taskInputJSON(c, resolve)
		}
		if c.Raw != nil {
			stdin = []byte(*c.Raw)
		}
	}
	switch c.Op {
	case "init":
		argv = append(argv, "init")
	case "new_task":
		argv = append(argv, "new", "task")
		agent()
		input()
	case "new_epic":
		argv = append(argv, "new", "epic")
		agent()
		input()
	case "set":
		argv = append(argv, "set", resolve(c.ID))
		agent()
		input()
	case "claim":
		argv = append(argv, "claim")
		agent()
		if c.Epic != nil {
			argv = append(argv, "--epic="+resolve(*c.Epic))
		}
	case "claim_id":
		argv = append(argv, "claim", resolve(c.ID))
		agent()
	case "sequence":
		argv = append(argv, "sequence")
		for _, id := range c.IDs {
			argv = append(argv, resolve(id))
		}
	case "sequence_rm":
		argv = append(argv, "sequence", "rm")
		for _, id := range c.IDs {
			argv = append(argv, resolve(id))
		}
	case "plan":
		argv = append(argv, "plan")
		if c.Raw != nil {
			stdin = []byte(*c.Raw)
		} else if c.Plan != nil {
			stdin = planJSON(c.Plan)
		} else {
			stdin = []byte{}
		}
	case "prune":
		argv = append(argv, "prune")
		agent()
		if c.Yes {
			argv = append(argv, "--yes")
		}
	case "compact":
		argv = append(argv, "compact")
	case "list":
		argv = append(argv, "list")
		if c.LAll {
			argv = append(argv, "--all")
		}
		if c.LReady {
			argv = append(argv, "--ready")
		}
		if c.LEpics {
			argv = append(argv, "--epics")
		}
		if c.Epic != nil {
			argv = append(argv, "--epic="+resolve(*c.Epic))
		}
	case "show":
		argv = append(argv, "show", resolve(c.ID))
	case "where":
		argv = append(argv, "where")
	case "quickstart":
		argv = append(argv, "quickstart")
	default:
		harnessf("Render: unknown op %q", c.Op)
	}
	argv = append(argv, c.Extra...)
	return
}

// ---------------------------------------------------------------- replies

// parseOneJSON checks that b is exactly one JSON value followed only by
// whitespace, and returns it.
func parseOneJSON(b []byte) (any, error) {
	dec := json.NewDecoder(bytes.NewReader(b))
	dec.UseNumber()
	var v any
	if err := dec.Decode(&v); err != nil {
		return nil, fmt.Errorf("stdout is not JSON: %v", err)
	}
	var extra any
	if err := dec.Decode(&extra); err != io.EOF {
		return nil, fmt.Errorf("stdout holds more than one JSON value")
	}
	return v, nil
}

func asMap(v any) map[string]any {
	m, _ := v.(map[string]any)
	return m
}

func asList(v any) []any {
	l, _ := v.([]any)
	return l
}

func str(m map[string]any, k string) string {
	if m == nil {
		return ""
	}
	s, _ := m[k].(string)
	return s
}

func strList(v any) []string {
	var out []string
	for _, x := range asList(v) {
		if s, ok := x.(string); ok {
			out = append(out, s)
		}
	}
	return out
}

func sortedCopy(s []string) []string {
	c := append([]string(nil), s...)
	sort.Strings(c)
	return c
}

func eqStrs(a, b []string) bool {
	if len(a) != len(b) {
		return false
	}
	for i := range a {
		if a[i] != b[i] {
			return false
		}
	}
	return true
}

func q(s string) string {
	if len(s) > 80 {
		return strconv.Quote(s[:40]) + fmt.Sprintf("…(%d bytes)…", len(s)) + strconv.Quote(s[len(s)-20:])
	}
	return strconv.Quote(s)
}
