package main

// Observation: what a user can see, obtained only through the real CLI at
// quiescence; plus the comparison of an observation with the reference model
// and the cross-invariants that must hold at every quiescent point.

import (
	"bytes"
	"fmt"
	"os"
	"path/filepath"
	"sort"
	"strings"
	"time"
)

type ObsResult struct {
	Summary, Path, FileURL, Sha, Mtime, Git, CreatedAt string
}

type ObsItem struct {
	ID, UUID, Kind, Epic, State, ClaimedBy, ClaimedAt, CreatedAt, UpdatedAt, Title, Body string
	Deps, RDeps                                                                          []string
	Results                                                                              []ObsResult
	// from list
	InList                           bool
	LKind, LEpic, LState, LClaimedBy string
	LTitle                           string
	Ready, Blocked, HasResults       bool
	Shown                            bool // show data present
	ShownVia                         string
}

type Obs struct {
	Items    map[string]*ObsItem
	ReadyIDs []string // ids in list --ready
	Failures []string // reads that failed (command, stderr)
	LogBytes []byte
	LogPath  string
	DirList  string // names + sizes in .ergo
	NProcs   int
}

func (o *Obs) IDs() []string {
	var ids []string
	for id := range o.Items {
		ids = append(ids, id)
	}
	sort.Strings(ids)
	return ids
}

func readShow(m map[string]any, it *ObsItem) {
	it.Shown = true
	it.UUID = str(m, "uuid")
	it.Epic = str(m, "epic_id")
	it.State = str(m, "state")
	it.ClaimedBy = str(m, "claimed_by")
	it.ClaimedAt = str(m, "claimed_at")
	it.CreatedAt = str(m, "created_at")
	it.UpdatedAt = str(m, "updated_at")
	it.Title = str(m, "title")
	it.Body = str(m, "body")
	it.Deps = sortedCopy(strList(m["deps"]))
	it.RDeps = sortedCopy(strList(m["rdeps"]))
	it.Results = nil
	for _, r := range asList(m["results"]) {
		rm := asMap(r)
		it.Results = append(it.Results, ObsResult{Summary: str(rm, "summary"), Path: str(rm, "path"), FileURL: str(rm, "file_url"),
			Sha: str(rm, "sha256_at_attach"), Mtime: str(rm, "mtime_at_attach"), Git: str(rm, "git_commit_at_attach"), CreatedAt: str(rm, "created_at")})
	}
}

// storeFiles returns the log bytes (plans.jsonl, else events.jsonl) and a listing of .ergo.
func storeFiles(proj string) (logPath string, log []byte, listing string) {
	dir := filepath.Join(proj, ".ergo")
	ents, _ := os.ReadDir(dir)
	var names []string
	for _, e := range ents {
		info, err := e.Info()
		if err != nil {
			continue
		}
		names = append(names, fmt.Sprintf("%s:%d", e.Name(), info.Size()))
	}
	sort.Strings(names)
	listing = strings.Join(names, ",")
	for _, n := range []string{"plans.jsonl", "events.jsonl"} {
		p := filepath.Join(dir, n)
		if b, err := os.ReadFile(p); err == nil {
			return p, b, listing
		}
	}
	return filepath.Join(dir, "plans.jsonl"), nil, listing
}

// Observe gathers the full observable state. extraIDs are ids to show in
// addition to those listed (ids the model believes live). With light=true only
// the ids in `dirty` (plus epics, whose show carries their children) are shown.
func (w *World) Observe(extraIDs []string, light bool, dirty map[string]bool) *Obs {
	o := &Obs{Items: map[string]*ObsItem{}}
	o.LogPath, o.LogBytes, o.DirList = storeFiles(w.Proj)
	if _, err := os.Stat(filepath.Join(w.Proj, ".ergo")); err != nil {
		return o // no store yet: nothing to observe
	}
	get := func(id string) *ObsItem {
		it := o.Items[id]
		if it == nil {
			it = &ObsItem{ID: id}
			o.Items[id] = it
		}
		return it
	}
	run := func(args ...string) (any, bool) {
		out, errb, code := w.RunPlain(append([]string{"--json"}, args...), nil, w.Proj)
		o.NProcs++
		if code != 0 {
			o.Failures = append(o.Failures, fmt.Sprintf("ergo --json %s: exit %d: %s", strings.Join(args, " "), code, strings.TrimSpace(string(errb))))
			return nil, false
		}
		v, err := parseOneJSON(out)
		if err != nil {
			o.Failures = append(o.Failures, fmt.Sprintf("ergo --json %s: %v: %s", strings.Join(args, " "), err, q(string(out))))
			return nil, false
		}
		return v, true
	}
	if v, ok := run("list", "--all"); ok {
		for _, x := range asList(v) {
			m := asMap(x)
			it := get(str(m, "id"))
			it.InList = true
			it.LKind = str(m, "kind")
			it.Kind = it.LKind
			it.LEpic, it.LState, it.LClaimedBy, it.LTitle = str(m, "epic_id"), str(m, "state"), str(m, "claimed_by"), str(m, "title")
			it.Ready, _ = m["ready"].(bool)
			it.Blocked, _ = m["blocked"].(bool)
			it.HasResults, _ = m["has_results"].(bool)
		}
	}
	if v, ok := run("list", "--epics"); ok {
		for _, x := range asList(v) {
			m := asMap(x)
			it := get(str(m, "id"))
			it.InList = true
			it.LKind = str(m, "kind")
			it.Kind = it.LKind
			it.LEpic, it.LState, it.LClaimedBy, it.LTitle = str(m, "epic_id"), str(m, "state"), str(m, "claimed_by"), str(m, "title")
			it.Ready, _ = m["ready"].(bool)
			it.Blocked, _ = m["blocked"].(bool)
		}
	}
	if v, ok := run("list", "--ready"); ok {
		for _, x := range asList(v) {
			o.ReadyIDs = append(o.ReadyIDs, str(asMap(x), "id"))
		}
		sort.Strings(o.ReadyIDs)
	}
	want := map[string]bool{}
	for id := range o.Items {
		want[id] = true
	}
	for _, id := range extraIDs {
		want[id] = true
	}
	var ids []string
	for id := range want {
		ids = append(ids, id)
	}
	sort.Strings(ids)
	// epics first: their show carries the children
	for _, id := range ids {
		it := o.Items[id]
		if it == nil || it.Kind != "epic" {
			continue
		}
		if light && !dirty[id] {
			// still needed when a dirty child sits inside
			need := false
			for _, cid := range ids {
				if c := o.Items[cid]; c != nil && c.LEpic == id && dirty[cid] {
					need = true
				}
			}
			if !need {
				continue
			}
		}
		v, ok := run("show", id)
		if !ok {
			continue
		}
		m := asMap(v)
		if em := asMap(m["epic"]); em != nil {
			readShow(em, it)
			it.ShownVia = "epic"
			for _, c := range asList(m["children"]) {
				cm := asMap(c)
				ci := get(str(cm, "id"))
				readShow(cm, ci)
				ci.ShownVia = "child-of:" + id
			}
		} else {
			readShow(m, it)
			it.ShownVia = "self"
		}
	}
	for _, id := range ids {
		it := o.Items[id]
		if it != nil && it.Shown {
			continue
		}
		if light && !dirty[id] {
			continue
		}
		if it == nil {
			// an id the caller believes live but that is not listed: probe
			// it; failure is an answer here, not a failed read
			out, _, code := w.RunPlain([]string{"--json", "show", id}, nil, w.Proj)
			o.NProcs++
			if code == 0 {
				if v, err := parseOneJSON(out); err == nil {
					it = get(id)
					m := asMap(v)
					if em := asMap(m["epic"]); em != nil {
						m = em
					}
					readShow(m, it)
					it.ShownVia = "unlisted"
				}
			}
			continue
		}
		v, ok := run("show", id)
		if !ok {
			continue
		}
		readShow(asMap(v), it)
		it.ShownVia = "self"
	}
	w.Count.Add("procs.obs", o.NProcs)
	return o
}

// ---------------------------------------------------------------- violations

type Violation struct {
	Prop   string `json:"property"`
	Oracle string `json:"oracle"`
	Sig    string `json:"signature"` // stable identity: oracle + command shape + pre-state class + symptom class
	Detail string `json:"detail"`
	Step   int    `json:"step"`
}

func (v Violation) String() string {
	return fmt.Sprintf("[%s] %s: %s (sig %s)", v.Prop, v.Oracle, v.Detail, v.Sig)
}

type VList struct {
	V    []Violation
	step int
}

func (l *VList) add(prop, oracle, sig, format string, a ...any) {
	l.V = append(l.V, Violation{Prop: prop, Oracle: oracle, Sig: oracle + ":" + sig, Detail: fmt.Sprintf(format, a...), Step: l.step})
}

// ---------------------------------------------------------------- invariants

// CheckInvariants: cross-invariants on one observation, judged only from
// observed fields (C06 claim rule, C07 graph shape, C08 flags, C14 epic refs,
// C15 progress).
func CheckInvariants(o *Obs, vl *VList) {
	for _, f := range o.Failures {
		vl.add("C12", "read-failed", "read-failed", "a read failed at quiescence: %s", f)
	}
	ids := o.IDs()
	kind := func(id string) string {
		if it := o.Items[id]; it != nil {
			return it.Kind
		}
		return ""
	}
	anyTodo, anyHeld := false, false
	readyCount := 0
	for _, id := range ids {
		it := o.Items[id]
		if !it.InList {
			continue
		}
		state, claimed, epic := it.LState, it.LClaimedBy, it.LEpic
		if it.Kind == "task" {
			if !sixStates[state] {
				vl.add("C06", "six-states", "state="+state, "task %s has state %q", id, state)
			}
			switch state {
			case "doing", "error":
				if claimed == "" {
					vl.add("C06", "claim-rule", state+"-unclaimed", "task %s is %s but has no claimant", id, state)
				}
			case "todo", "done", "canceled":
				if claimed != "" {
					vl.add("C06", "claim-rule", state+"-claimed", "task %s is %s but claimed by %q", id, state, claimed)
				}
			}
			if epic != "" && kind(epic) != "epic" {
				what := "an unknown/pruned id"
				if kind(epic) == "task" {
					what = "a plain task"
				}
				vl.add("C14", "epic-ref", "dangling-"+strings.ReplaceAll(what, " ", "-"), "task %s has epic_id %s which is %s", id, epic, what)
			}
			switch state {
			case "todo":
				anyTodo = true
			case "doing", "blocked", "error":
				anyHeld = true
			}
			if it.Ready {
				readyCount++
			}
		} else if it.Kind == "epic" {
			if claimed != "" {
				vl.add("C06", "epic-claimed", "epic-claimed", "epic %s has claimant %q", id, claimed)
			}
			if epic != "" {
				vl.add("C14", "epic-in-epic", "epic-in-epic", "epic %s belongs to %s", id, epic)
			}
			if it.Shown && it.State != "todo" && it.State != "" {
				vl.add("C06", "epic-state", "epic-state="+it.State, "epic %s acquired state %q", id, it.State)
			}
		}
	}
	// graph shape (needs show data)
	deps := map[string][]string{}
	for _, id := range ids {
		it := o.Items[id]
		if !it.Shown {
			continue
		}
		deps[id] = it.Deps
		for _, d := range it.Deps {
			if d == id {
				vl.add("C07", "self-edge", "self-edge", "%s depends on itself", id)
			}
			od := o.Items[d]
			if od == nil || !od.InList {
				vl.add("C07", "dead-endpoint", "dead-endpoint", "%s depends on %s which is not a live item", id, d)
				continue
			}
			if od.Kind != it.Kind {
				vl.add("C07", "cross-kind", "cross-kind", "%s (%s) depends on %s (%s)", id, it.Kind, d, od.Kind)
			}
			if od.Shown && !contains(od.RDeps, id) {
				vl.add("C07", "mirror", "dep-without-rdep", "%s lists dep %s but %s does not list rdep %s", id, d, d, id)
			}
		}
		for _, r := range it.RDeps {
			or := o.Items[r]
			if or == nil || !or.InList {
				vl.add("C07", "dead-endpoint", "dead-rdep", "%s has rdep %s which is not a live item", id, r)
				continue
			}
			if or.Shown && !contains(or.Deps, id) {
				vl.add("C07", "mirror", "rdep-without-dep", "%s lists rdep %s but %s does not list dep %s", id, r, r, id)
			}
		}
	}
	if cyc := findCycle(deps); cyc != nil {
		vl.add("C07", "cycle", "cycle", "dependency cycle %v", cyc)
	}
	// C15: unfinished work, nobody holding anything, yet nothing ready
	if anyTodo && !anyHeld && readyCount == 0 {
		vl.add("C15", "no-progress", "todo-but-nothing-ready", "todo tasks exist, none doing/blocked/error, and nothing is ready")
	}
}

func contains(l []string, s string) bool {
	for _, x := range l {
		if x == s {
			return true
		}
	}
	return false
}

func findCycle(deps map[string][]string) []string {
	color := map[string]int{}
	var stack []string
	var found []string
	var visit func(string) bool
	visit = func(n string) bool {
		color[n] = 1
		stack = append(stack, n)
		for _, d := range deps[n] {
			if color[d] == 1 {
				for i, s := range stack {
					if s == d {
						found = append([]string(nil), stack[i:]...)
						return true
					}
				}
			}
			if color[d] == 0 {
				if visit(d) {
					return true
				}
			}
		}
		stack = stack[:len(stack)-1]
		color[n] = 2
		return false
	}
	var keys []string
	for k := range deps {
		keys = append(keys, k)
	}
	sort.Strings(keys)
	for _, k := range keys {
		if color[k] == 0 && visit(k) {
			return found
		}
	}
	return nil
}

// CheckFlags: ready/blocked as observed vs. the manual's definition evaluated
// on the *observed* fields only (independent of the model's history).
func CheckFlags(o *Obs, vl *VList) {
	// build a throw-away model from the observation
	m := NewModel("")
	complete := true
	for _, id := range o.IDs() {
		it := o.Items[id]
		if !it.InList {
			continue
		}
		mi := &MItem{ID: id, IsEpic: it.Kind == "epic", State: it.LState, ClaimedBy: it.LClaimedBy, Epic: it.LEpic, Deps: map[string]bool{}}
		if it.Shown {
			for _, d := range it.Deps {
				mi.Deps[d] = true
			}
		} else {
			complete = false
		}
		m.Items[id] = mi
	}
	if !complete {
		return
	}
	var wantReady []string
	for _, id := range o.IDs() {
		it := o.Items[id]
		if !it.InList || it.Kind != "task" {
			continue
		}
		r, b := m.Ready(id), m.Blocked(id)
		if r {
			wantReady = append(wantReady, id)
		}
		if it.Ready != r {
			vl.add("C08", "ready-flag", fmt.Sprintf("ready=%v-want=%v-state=%s", it.Ready, r, it.LState), "task %s (state %s, claimed %q, deps %v, epic %s) reported ready=%v, the manual's definition gives %v", id, it.LState, it.LClaimedBy, it.Deps, it.LEpic, it.Ready, r)
		}
		if it.Blocked != b {
			vl.add("C08", "blocked-flag", fmt.Sprintf("blocked=%v-want=%v-state=%s", it.Blocked, b, it.LState), "task %s (state %s, claimed %q, deps %v, epic %s) reported blocked=%v, the manual's definition gives %v", id, it.LState, it.LClaimedBy, it.Deps, it.LEpic, it.Blocked, b)
		}
	}
	sort.Strings(wantReady)
	if !eqStrs(wantReady, o.ReadyIDs) {
		vl.add("C08", "list-ready", "list-ready-set", "list --ready shows %v, ready tasks are %v", o.ReadyIDs, wantReady)
	}
}

// ---------------------------------------------------------------- obs vs model

// CompareObs reports differences between an observation and a model state.
// The returned strings name the field that differs (used both for reporting
// and for choosing among admissible alternatives).
type Diff struct {
	Prop, Field, ID, Detail string
}

func parseTS(s string) (int64, bool) {
	t, err := time.Parse(time.RFC3339Nano, s)
	if err != nil {
		return 0, false
	}
	return t.UnixNano(), true
}

func CompareObs(o *Obs, m *Model, full bool) []Diff {
	var ds []Diff
	add := func(prop, field, id, format string, a ...any) {
		ds = append(ds, Diff{prop, field, id, fmt.Sprintf(format, a...)})
	}
	for _, id := range m.LiveIDs() {
		it := m.Items[id]
		oi := o.Items[id]
		if oi == nil || !oi.InList {
			add("C12", "missing", id, "item %s (%s) exists in the model but is not listed", id, it.Title)
			continue
		}
		wantKind := "task"
		if it.IsEpic {
			wantKind = "epic"
		}
		if oi.Kind != wantKind {
			add("C12", "kind", id, "item %s listed as %s, want %s", id, oi.Kind, wantKind)
		}
		if oi.LTitle != it.Title {
			add("C17", "title", id, "item %s title %s, want %s", id, q(oi.LTitle), q(it.Title))
		}
		if !it.IsEpic {
			if oi.LState != it.State {
				add("C06", "state", id, "task %s state %s, want %s", id, oi.LState, it.State)
			}
			if oi.LClaimedBy != it.ClaimedBy {
				add("C06", "claimed_by", id, "task %s claimed_by %q, want %q", id, oi.LClaimedBy, it.ClaimedBy)
			}
			if oi.LEpic != it.Epic {
				add("C14", "epic", id, "task %s epic %q, want %q", id, oi.LEpic, it.Epic)
			}
			if oi.Ready != m.Ready(id) {
				add("C08", "ready", id, "task %s ready=%v, model says %v", id, oi.Ready, m.Ready(id))
			}
			if oi.Blocked != m.Blocked(id) {
				add("C08", "blocked", id, "task %s blocked=%v, model says %v", id, oi.Blocked, m.Blocked(id))
			}
			if oi.HasResults != (len(it.Results) > 0) {
				add("C20", "has_results", id, "task %s has_results=%v, model has %d results", id, oi.HasResults, len(it.Results))
			}
		}
		if !oi.Shown {
			if full {
				add("C12", "show-missing", id, "item %s is listed but show gave nothing", id)
			}
			continue
		}
		if oi.Title != it.Title {
			add("C17", "title", id, "show %s title %s, want %s", id, q(oi.Title), q(it.Title))
		}
		if oi.Body != it.Body {
			add("C17", "body", id, "show %s body %s, want %s", id, q(oi.Body), q(it.Body))
		}
		if it.UUID != "" && oi.UUID != it.UUID {
			add("C16", "uuid", id, "show %s uuid %s, want %s", id, oi.UUID, it.UUID)
		}
		if it.CreatedAt != "" && oi.CreatedAt != it.CreatedAt {
			add("C05", "created_at", id, "show %s created_at %s, want %s", id, oi.CreatedAt, it.CreatedAt)
		}
		if !it.IsEpic {
			if oi.State != it.State {
				add("C06", "state", id, "show %s state %s, want %s", id, oi.State, it.State)
			}
			if oi.ClaimedBy != it.ClaimedBy {
				add("C06", "claimed_by", id, "show %s claimed_by %q, want %q", id, oi.ClaimedBy, it.ClaimedBy)
			}
			if oi.Epic != it.Epic {
				add("C14", "epic", id, "show %s epic_id %q, want %q", id, oi.Epic, it.Epic)
			}
			if (oi.ClaimedAt != "") != (it.ClaimedBy != "") {
				add("C06", "claimed_at", id, "show %s claimed_at %q with claimed_by %q", id, oi.ClaimedAt, it.ClaimedBy)
			}
		}
		wd := m.DepList(id)
		if !eqStrs(oi.Deps, wd) {
			add("C07", "deps", id, "show %s deps %v, want %v", id, oi.Deps, wd)
		}
		wr := m.RDeps(id)
		if !eqStrs(oi.RDeps, wr) {
			add("C07", "rdeps", id, "show %s rdeps %v, want %v", id, oi.RDeps, wr)
		}
		if len(oi.Results) != len(it.Results) {
			add("C20", "results", id, "show %s has %d results, want %d", id, len(oi.Results), len(it.Results))
		} else {
			for i, r := range it.Results {
				or := oi.Results[i]
				if or.Summary != r.Summary || or.Path != r.Path || or.Sha != r.Sha || or.FileURL != r.FileURL {
					add("C20", "results", id, "show %s result[%d] = {%s %s %s %s}, want {%s %s %s %s}", id, i, q(or.Summary), or.Path, or.Sha, or.FileURL, q(r.Summary), r.Path, r.Sha, r.FileURL)
				}
			}
		}
	}
	for _, id := range o.IDs() {
		if m.Items[id] == nil && o.Items[id].InList {
			prop := "C12"
			if m.Pruned[id] {
				prop = "C09"
			}
			add(prop, "extra", id, "item %s is listed but does not exist in the model (pruned=%v)", id, m.Pruned[id])
		}
	}
	return ds
}

// SameObs compares two observations field by field (used where the state must
// not change: failed commands, reads, compact, init).
func SameObs(a, b *Obs) []string {
	var out []string
	ids := map[string]bool{}
	for id := range a.Items {
		ids[id] = true
	}
	for id := range b.Items {
		ids[id] = true
	}
	var keys []string
	for id := range ids {
		keys = append(keys, id)
	}
	sort.Strings(keys)
	for _, id := range keys {
		x, y := a.Items[id], b.Items[id]
		if x == nil || y == nil {
			out = append(out, fmt.Sprintf("item %s present before=%v after=%v", id, x != nil, y != nil))
			continue
		}
		if x.InList != y.InList || x.LKind != y.LKind || x.LEpic != y.LEpic || x.LState != y.LState || x.LClaimedBy != y.LClaimedBy || x.LTitle != y.LTitle || x.Ready != y.Ready || x.Blocked != y.Blocked || x.HasResults != y.HasResults {
			out = append(out, fmt.Sprintf("item %s list row changed: {%s %s %s %q %s r=%v b=%v} -> {%s %s %s %q %s r=%v b=%v}", id, x.LKind, x.LEpic, x.LState, x.LClaimedBy, q(x.LTitle), x.Ready, x.Blocked, y.LKind, y.LEpic, y.LState, y.LClaimedBy, q(y.LTitle), y.Ready, y.Blocked))
		}
		if x.Shown && y.Shown {
			if x.UUID != y.UUID || x.Epic != y.Epic || x.State != y.State || x.ClaimedBy != y.ClaimedBy || x.ClaimedAt != y.ClaimedAt || x.CreatedAt != y.CreatedAt || x.UpdatedAt != y.UpdatedAt || x.Title != y.Title || x.Body != y.Body || !eqStrs(x.Deps, y.Deps) || !eqStrs(x.RDeps, y.RDeps) {
				out = append(out, fmt.Sprintf("item %s show changed: state %s->%s claimed %q->%q claimed_at %s->%s created %s->%s updated %s->%s epic %q->%q deps %v->%v rdeps %v->%v title %s->%s body %s->%s", id, x.State, y.State, x.ClaimedBy, y.ClaimedBy, x.ClaimedAt, y.ClaimedAt, x.CreatedAt, y.CreatedAt, x.UpdatedAt, y.UpdatedAt, x.Epic, y.Epic, x.Deps, y.Deps, x.RDeps, y.RDeps, q(x.Title), q(y.Title), q(x.Body), q(y.Body)))
			}
			if len(x.Results) != len(y.Results) {
				out = append(out, fmt.Sprintf("item %s results %d -> %d", id, len(x.Results), len(y.Results)))
			} else {
				for i := range x.Results {
					if x.Results[i] != y.Results[i] {
						out = append(out, fmt.Sprintf("item %s result[%d] changed: %+v -> %+v", id, i, x.Results[i], y.Results[i]))
					}
				}
			}
		}
	}
	if !eqStrs(a.ReadyIDs, b.ReadyIDs) {
		out = append(out, fmt.Sprintf("list --ready changed: %v -> %v", a.ReadyIDs, b.ReadyIDs))
	}
	return out
}

// logLines splits a log into its lines (without terminators); complete says
// whether the file ends in a newline (or is empty).
func logLines(b []byte) (lines [][]byte, complete bool) {
	if len(b) == 0 {
		return nil, true
	}
	complete = b[len(b)-1] == '\n'
	parts := bytes.Split(b, []byte{'\n'})
	if complete {
		parts = parts[:len(parts)-1]
	}
	return parts, complete
}
