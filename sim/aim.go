package main

// Model-guided aiming: instead of waiting for random draws to stumble on a
// rare outcome class, search the reference model for a request of that class
// in the current state. Classes: a request that would close a cycle in the
// effective waits-for relation (refused or accepted - both are judged), and a
// multi-id sequence whose cycle is closed by a LATER edge of the chain through
// edges that exist already.

import (
	"fmt"
	"strings"
)

func (g *Gen) refOf(m *Model, id string) string {
	for i, x := range m.Order {
		if x == id {
			return fmt.Sprintf("#%d", i)
		}
	}
	return id
}

// orderedLive: live ids in creation order (deterministic).
func orderedLive(m *Model, pred func(*MItem) bool) []string {
	var out []string
	for _, id := range m.Order {
		if it := m.Items[id]; it != nil && pred(it) {
			out = append(out, id)
		}
	}
	return out
}

// aimWaitCycle returns a request whose documented effect would close a cycle
// in the waits-for relation (through epic membership and epic dependencies).
func (g *Gen) aimWaitCycle(m *Model) (Cmd, bool) {
	var cands []Cmd
	tasks, epics := orderedLive(m, isTask), orderedLive(m, isEpic)
	if len(tasks) > 14 {
		tasks = tasks[len(tasks)-14:]
	}
	if len(epics) > 6 {
		epics = epics[len(epics)-6:]
	}
	closes := func(c Cmd) bool {
		p := m.Predict(c)
		return p.Class == Either && strings.Contains(p.Why, "waits-for")
	}
	for _, t := range tasks {
		for _, e := range epics {
			if m.Items[t].Epic == e {
				continue
			}
			er := g.refOf(m, e)
			c := Cmd{Op: "set", Mode: "json", ID: g.refOf(m, t), Epic: &er}
			if closes(c) {
				cands = append(cands, c)
			}
		}
	}
	for _, set := range [][]string{tasks, epics} {
		for _, a := range set {
			for _, b := range set {
				if a == b || m.Items[b].Deps[a] {
					continue
				}
				c := Cmd{Op: "sequence", IDs: []string{g.refOf(m, a), g.refOf(m, b)}}
				if closes(c) {
					cands = append(cands, c)
				}
			}
		}
	}
	if len(cands) == 0 {
		return Cmd{}, false
	}
	c := cands[g.R.Intn(len(cands))]
	if c.Op == "set" && c.Epic != nil && g.R.Chance(1, 2) {
		// the refusal must leave the other fields of the same request unapplied
		c.Title = sp(g.text("title"))
		if g.R.Chance(1, 2) {
			c.Body = sp(g.text("body"))
		}
	}
	return c, true
}

// aimClosingChain: a sequence of three or four ids of one kind whose last (or
// middle) edge closes a cycle through dependencies that exist already.
func (g *Gen) aimClosingChain(m *Model) (Cmd, bool) {
	type pair struct{ x, y string }
	var pairs []pair
	for _, pred := range []func(*MItem) bool{isTask, isEpic} {
		ids := orderedLive(m, pred)
		for _, x := range ids {
			for _, y := range ids {
				if x != y && m.Items[x].Deps[y] { // x depends on y
					pairs = append(pairs, pair{x, y})
				}
			}
		}
	}
	if len(pairs) == 0 {
		return Cmd{}, false
	}
	p := pairs[g.R.Intn(len(pairs))]
	kind := isTask
	if m.Items[p.x].IsEpic {
		kind = isEpic
	}
	var others []string
	for _, id := range orderedLive(m, kind) {
		if id != p.x && id != p.y {
			others = append(others, id)
		}
	}
	// chain x, z.., y: z after x, y after z; with x after y already there
	chain := []string{g.refOf(m, p.x)}
	n := 1 + g.R.Intn(2)
	for i := 0; i < n && len(others) > 0; i++ {
		j := g.R.Intn(len(others))
		chain = append(chain, g.refOf(m, others[j]))
		others = append(others[:j], others[j+1:]...)
	}
	if len(chain) < 2 {
		return Cmd{}, false
	}
	chain = append(chain, g.refOf(m, p.y))
	if g.R.Chance(1, 3) && len(others) > 0 {
		chain = append(chain, g.refOf(m, others[g.R.Intn(len(others))]))
	}
	return Cmd{Op: "sequence", IDs: chain}, true
}

// aim: one model-guided request, if the current state offers one.
func (g *Gen) aim(m *Model) (Step, bool) {
	switch g.R.Intn(2) {
	case 0:
		if c, ok := g.aimWaitCycle(m); ok {
			return Step{Cmd: &c}, true
		}
	case 1:
		if c, ok := g.aimClosingChain(m); ok {
			return Step{Cmd: &c}, true
		}
	}
	return Step{}, false
}

// aimOldestChange: a writer after which `claim` (in the given scope) must hand
// out a different task than before - typically an OLDER task becoming ready
// (a dependency finished or unlinked, a finished task reopened, a task moved
// into the epic). A claim that chose its candidate before this writer
// committed and acts on it afterwards hands out the wrong task.
func (g *Gen) aimOldestChange(m *Model, epic string) (Cmd, bool) {
	scope := m.Resolve(epic)
	if epic == "" {
		scope = ""
	}
	cur := m.OldestReady(scope)
	var cands []Cmd
	tasks := orderedLive(m, isTask)
	try := func(c Cmd) {
		p := m.Predict(c)
		if p.Class != MustOK || len(p.Alts) == 0 {
			return
		}
		next := p.Alts[0].OldestReady(scope)
		if len(next) == 0 {
			return
		}
		same := len(next) == len(cur)
		for id := range next {
			if !cur[id] {
				same = false
			}
		}
		if !same {
			cands = append(cands, c)
		}
	}
	for _, t := range tasks {
		it := m.Items[t]
		ref := g.refOf(m, t)
		switch {
		case finished(it.State):
			try(Cmd{Op: "set", Mode: "json", ID: ref, State: sp("todo")})
		case it.State == "doing" || it.State == "error":
			try(Cmd{Op: "set", Mode: "json", ID: ref, State: sp("done")})
			try(Cmd{Op: "set", Mode: "json", ID: ref, State: sp("todo"), Claim: sp("")})
		default:
			try(Cmd{Op: "set", Mode: "json", ID: ref, State: sp(g.oneOf("done", "canceled"))})
		}
		for _, d := range m.DepList(t) {
			if m.Items[d] != nil {
				try(Cmd{Op: "sequence_rm", IDs: []string{g.refOf(m, d), ref}})
			}
		}
		if scope != "" && it.Epic != scope {
			e := epic
			try(Cmd{Op: "set", Mode: "json", ID: ref, Epic: &e})
		}
	}
	if len(cands) == 0 {
		return Cmd{}, false
	}
	return cands[g.R.Intn(len(cands))], true
}
