package main

// Run: executes one scenario in one world against the reference model and
// applies the oracles. Sequential steps are handled here; concurrent batches
// and crash sweeps build on the same pieces (conc.go, crash.go).

import (
	"bytes"
	"encoding/json"
	"fmt"
	"os"
	"path/filepath"
	"reflect"
	"regexp"
	"sort"
	"strings"
	"syscall"
	"time"
)

type Run struct {
	W         *World
	M         *Model
	Sc        *Scenario
	Obs       *Obs // last full observation (nil: stale)
	VL        VList
	seenSig   map[string]bool
	pendingIO *IOFault
	Shapes    map[string]bool // command shape × outcome
	States    map[string]bool // distinct model states at quiescent points
	Effects   int             // mutations that took effect
	Faults    int             // faults that fired
	StepNo    int
	Cmds      int
	Resyncs   int
	agents    []string
	nsnap     int
	forgotten map[string]bool // pruned ids whose history a compact has physically removed: nobody can know them any more
	violScen  [][]Step        // crash sweeps: the scenario demonstrating each violation
	// options
	NoObs bool // skip per-step observation (throughput runs)
}

func NewRun(bin string, sc *Scenario) *Run {
	cfg := sc.Config
	clock := NewClock(cfg.Clock, cfg.ClockSeed)
	rnd := NewRandStream(cfg.RandSeed)
	w := NewWorld(bin, clock, rnd)
	if cfg.GoMaxProcs != "" {
		w.GoMax = cfg.GoMaxProcs
	}
	if v := os.Getenv("SIM_ERGO_GOMAXPROCS"); v != "" {
		w.GoMax = v
	}
	if cfg.ShortWriteDen > 0 || cfg.ShortReadDen > 0 || cfg.StdinChunk {
		w.Amb = Ambient{ShortWriteDen: cfg.ShortWriteDen, ShortReadDen: cfg.ShortReadDen, StdinChunk: cfg.StdinChunk, rng: NewSplitMix(cfg.AmbSeed)}
	}
	r := &Run{W: w, M: NewModel(w.Proj), Sc: sc, seenSig: map[string]bool{}, Shapes: map[string]bool{}, States: map[string]bool{}}
	return r
}

func (r *Run) Close() { r.W.Destroy() }

func (r *Run) viol(prop, oracle, sig, format string, a ...any) {
	full := oracle + ":" + sig
	if r.seenSig[prop+"|"+full] {
		return
	}
	r.seenSig[prop+"|"+full] = true
	r.VL.step = r.StepNo
	r.VL.add(prop, oracle, sig, format, a...)
}

func (r *Run) absorb(vl *VList) {
	for _, v := range vl.V {
		k := v.Prop + "|" + v.Sig
		if r.seenSig[k] {
			continue
		}
		r.seenSig[k] = true
		v.Step = r.StepNo
		r.VL.V = append(r.VL.V, v)
	}
}

// InitStore creates the store according to the configured layout.
func (r *Run) InitStore() {
	if r.Sc.Config.Layout == "fresh" {
		// a project that has no store yet: the first commands (init among
		// them) arrive together
		r.M.NoStore = true
		return
	}
	p := r.W.RunOne(ProcSpec{Argv: []string{"init"}, Cwd: r.W.Proj, Label: "init"})
	if p.ExitCode != 0 {
		harnessf("ergo init failed: %s", p.Stderr)
	}
	r.setupLayout()
}

func (r *Run) observe() *Obs {
	o := r.W.Observe(r.M.LiveIDs(), false, nil)
	r.Obs = o
	return o
}

func (r *Run) ensureObs() *Obs {
	if r.Obs == nil {
		return r.observe()
	}
	return r.Obs
}

func (r *Run) cwdFor(c Cmd) string {
	if c.Sub == "" {
		return r.W.Proj
	}
	d := filepath.Join(r.W.Proj, c.Sub)
	os.MkdirAll(d, 0o755)
	return d
}

// dirArg spells the --dir argument per the command's DirMode.
func (r *Run) dirArg(c Cmd) string {
	cwd := r.cwdFor(c)
	switch c.DirMode {
	case "":
		return ""
	case "abs":
		return r.W.Proj
	case "absergo":
		return filepath.Join(r.W.Proj, ".ergo")
	case "slash":
		return r.W.Proj + "/"
	case "rel":
		rel, _ := filepath.Rel(cwd, r.W.Proj)
		return rel
	case "ergo":
		rel, _ := filepath.Rel(cwd, filepath.Join(r.W.Proj, ".ergo"))
		return rel
	case "dotdot":
		return filepath.Join(r.W.Proj, "sub", "..") + "/"
	case "deep":
		d := filepath.Join(r.W.Proj, "a", "b", "c")
		os.MkdirAll(d, 0o755)
		return d
	case "ergoslash":
		rel, _ := filepath.Rel(cwd, filepath.Join(r.W.Proj, ".ergo"))
		return rel + "/"
	case "absergoslash":
		return filepath.Join(r.W.Proj, ".ergo") + "/"
	case "dot":
		// the start directory itself, spelled relatively: discovery has to
		// climb from wherever the command was started
		return "."
	case "relsub":
		// a directory inside the project, spelled relative to the start directory
		d := filepath.Join(r.W.Proj, "a", "b", "c")
		os.MkdirAll(d, 0o755)
		rel, _ := filepath.Rel(cwd, d)
		return rel
	}
	return ""
}

func (r *Run) spec(c Cmd) ProcSpec {
	argv, stdin := c.Render(r.M.Resolve, r.dirArg(c))
	for i, a := range argv {
		if a == "$PROJ" {
			argv[i] = r.W.Proj
		}
	}
	if stdin == nil && c.Op != "init" {
		// flags-only input needs a stdin that is "not piped": /dev/null is a character device
	}
	return ProcSpec{Argv: argv, Stdin: stdin, Cwd: r.cwdFor(c), Label: c.Op}
}

func fmtTS(ns int64) string { return time.Unix(0, ns).UTC().Format(time.RFC3339Nano) }

var idRe = regexp.MustCompile(`^[A-Z0-9]{6}$`)

// checkProcessSanity: C12 totality / C16 framing, for any finished process.
func (r *Run) checkProcess(c Cmd, p *Proc) (reply any, ok bool) {
	shape := c.Shape()
	if p.Signaled {
		r.viol("C12", "died-by-signal", shape, "%s died by signal (exit %d): %s", shape, p.ExitCode, tail(p.Stderr))
		return nil, false
	}
	if bytes.Contains(p.Stderr, []byte("panic:")) || bytes.Contains(p.Stderr, []byte("goroutine 1 [")) || bytes.Contains(p.Stderr, []byte("fatal error:")) {
		r.viol("C12", "go-panic", shape, "%s crashed: %s", shape, tail(p.Stderr))
		return nil, false
	}
	if p.ExitCode != 0 {
		if len(bytes.TrimSpace(p.Stderr)) == 0 {
			r.viol("C16", "silent-failure", shape, "%s exited %d with empty stderr", shape, p.ExitCode)
		}
		if !c.Human && len(bytes.TrimSpace(p.Stdout)) > 0 {
			v, err := parseOneJSON(p.Stdout)
			if err != nil {
				r.viol("C16", "failure-stdout", shape, "%s failed and stdout is not a single JSON value: %s", shape, q(string(p.Stdout)))
			} else if m := asMap(v); m == nil || str(m, "error") == "" {
				r.viol("C16", "failure-stdout", shape+"-not-error-object", "%s failed and stdout is not an error object: %s", shape, q(string(p.Stdout)))
			}
		}
		return nil, false
	}
	if c.Human {
		return nil, true
	}
	v, err := parseOneJSON(p.Stdout)
	if err != nil {
		r.viol("C16", "success-stdout", shape, "%s succeeded but %v: %s", shape, err, q(string(p.Stdout)))
		return nil, true
	}
	return v, true
}

func tail(b []byte) string {
	s := strings.TrimSpace(string(b))
	if len(s) > 400 {
		s = s[:200] + " … " + s[len(s)-200:]
	}
	return s
}

func dirListSansLock(s string) string {
	var keep []string
	for _, e := range strings.Split(s, ",") {
		if e == "lock:0" || e == "" {
			continue
		}
		keep = append(keep, e)
	}
	return strings.Join(keep, ",")
}

// jsonLinesEqualPrefix: are the JSON values of the lines of `before` a prefix
// of those of `after`? (content-equal, so a faithful re-serialisation passes)
func jsonLinesEqualPrefix(before, after []byte) (bool, string) {
	bl, _ := logLines(before)
	al, _ := logLines(after)
	// ignore blank lines
	nb := func(ls [][]byte) [][]byte {
		var o [][]byte
		for _, l := range ls {
			if len(bytes.TrimSpace(l)) > 0 {
				o = append(o, l)
			}
		}
		return o
	}
	bl, al = nb(bl), nb(al)
	// a torn (unparseable, unterminated) tail before is not an event
	if len(bl) > 0 && len(before) > 0 && before[len(before)-1] != '\n' {
		var v any
		if json.Unmarshal(bl[len(bl)-1], &v) != nil {
			bl = bl[:len(bl)-1]
		}
	}
	if len(al) < len(bl) {
		return false, fmt.Sprintf("log shrank from %d to %d events", len(bl), len(al))
	}
	for i := range bl {
		if bytes.Equal(bl[i], al[i]) {
			continue
		}
		var x, y any
		if json.Unmarshal(bl[i], &x) != nil || json.Unmarshal(al[i], &y) != nil || !reflect.DeepEqual(x, y) {
			return false, fmt.Sprintf("event %d changed: %s -> %s", i+1, q(string(bl[i])), q(string(al[i])))
		}
	}
	return true, ""
}

func wholeLines(b []byte) (bool, string) {
	if len(b) == 0 {
		return true, ""
	}
	if b[len(b)-1] != '\n' {
		return false, "log does not end in a newline"
	}
	ls, _ := logLines(b)
	for i, l := range ls {
		if len(bytes.TrimSpace(l)) == 0 {
			continue
		}
		var v any
		if err := json.Unmarshal(l, &v); err != nil {
			return false, fmt.Sprintf("line %d is not JSON: %s", i+1, q(string(l)))
		}
	}
	return true, ""
}

// preClass: a coarse class of the addressed item's pre-state, for signatures.
func (r *Run) preClass(c Cmd) string {
	id := r.M.Resolve(c.ID)
	if c.ID == "" {
		return "-"
	}
	it := r.M.Items[id]
	if it == nil {
		if r.M.Pruned[id] {
			return "pruned"
		}
		return "unknown"
	}
	if it.IsEpic {
		return "epic"
	}
	cl := "unclaimed"
	if it.ClaimedBy != "" {
		cl = "claimed"
	}
	return it.State + "/" + cl
}

// DoCmd runs one command sequentially with all sequential oracles.
func (r *Run) DoCmd(c Cmd) *Proc {
	r.StepNo++
	r.Cmds++
	pre := r.ensureObs()
	pred := r.M.Predict(c)
	preClass := r.preClass(c)
	shape := c.Shape()
	evBefore := r.W.Count["fault.short_write"] + r.W.Count["fault.short_read"] + r.W.Count["fault.stdin_chunk"]
	ioFired := false
	if f := r.pendingIO; f != nil {
		r.pendingIO = nil
		seen, armed, wrote := 0, false, false
		r.W.Rule = func(p *Proc, e *Ev) (string, bool) {
			if !strings.Contains(e.Path, ".jsonl") {
				return "", false
			}
			op := e.Op
			if wrote && (op == "read" || op == "pread" || op == "openat") {
				// after the command's first write only writes are failed: what a
				// command owes its caller when it cannot re-read its own result
				// is not stated anywhere
				return "", false
			}
			if op == "write" || op == "pwrite" || op == "rename" {
				defer func() { wrote = true }()
			}
			if op == "pwrite" {
				op = "write"
			}
			if op == "pread" {
				op = "read"
			}
			if armed && op == "write" {
				armed = false
				return fmt.Sprintf("err:%d", f.Errno), true
			}
			if op != f.Call || ioFired {
				return "", false
			}
			if f.Call == "openat" && e.Flags&(syscall.O_WRONLY|syscall.O_RDWR) == 0 && f.Errno == int(syscall.ENOSPC) {
				return "", false
			}
			seen++
			if seen-1 != f.Nth {
				return "", false
			}
			ioFired = true
			r.W.Count.Inc("fault.io_" + f.Call)
			if f.Call == "write" && f.Short > 0 && f.Short < e.Len {
				armed = true
				return fmt.Sprintf("short:%d", f.Short), true
			}
			return fmt.Sprintf("err:%d", f.Errno), true
		}
	}
	p := r.W.RunOne(r.spec(c))
	r.W.Rule = nil
	if ioFired {
		r.Faults++
	}
	r.Faults += r.W.Count["fault.short_write"] + r.W.Count["fault.short_read"] + r.W.Count["fault.stdin_chunk"] - evBefore
	reply, ok := r.checkProcess(c, p)
	r.Shapes[shape+"|"+preClass+"|"+fmt.Sprint(ok)] = true

	// a read through any start directory and --dir spelling shows what the
	// plain spelling from the project root shows, byte for byte (C18; for
	// results this is also C20's "file_url of its absolute path")
	if ok && c.IsRead() && !c.Human && (c.Op == "show" || c.Op == "list") && (c.Sub != "" || c.DirMode != "") {
		cc := c
		cc.Sub, cc.DirMode = "", ""
		so, _, code := r.W.RunPlain(r.spec(cc).Argv, nil, r.cwdFor(cc))
		r.W.Count.Inc("c18.canonical_reads")
		if code != 0 || !bytes.Equal(so, p.Stdout) {
			r.viol("C18", "spelling-changes-output", c.Op+"|"+c.DirMode, "%s from %q with --dir spelled %q answers %s; from the project root without --dir the answer is %s", shape, c.Sub, r.dirArg(c), oneLine(string(p.Stdout), 600), oneLine(string(so), 600))
		}
	}

	// read purity (C12c): documented read-only commands never mutate the store
	if c.IsRead() {
		for _, e := range p.VisibleEvents() {
			if e.IsMutating() && e.Act != "kill" {
				if e.Op == "openat" && filepath.Base(e.Path) == "lock" {
					continue
				}
				if e.Op == "write" && filepath.Base(e.Path) == "lock" && e.Len == 0 {
					continue
				}
				r.viol("C12", "read-purity", c.Op+"-"+e.Op, "read-only %s performed %s", shape, e.String())
			}
		}
	}

	if c.IsRead() && r.Sc.Prop == "C12" {
		// the same log always produces byte-identical output
		for rep := 0; rep < 5; rep++ {
			so, se, code := r.W.RunPlain(r.spec(c).Argv, nil, r.cwdFor(c))
			r.W.Count.Inc("c12.repeat_reads")
			if code != p.ExitCode || !bytes.Equal(so, p.Stdout) || !bytes.Equal(se, p.Stderr) {
				r.viol("C12", "nondeterministic-read", c.Op, "%s answered differently on the same log: exit %d/%d stdout %s / %s", shape, p.ExitCode, code, q(string(p.Stdout)), q(string(so)))
				break
			}
		}
	}
	post := r.observe()
	// (an unterminated fragment at the end - the trace of a killed append -
	// is not content: readers ignore it, and a writer may cut it off even if
	// it then fails)
	logChanged := !bytes.Equal(settledBytes(pre.LogBytes), settledBytes(post.LogBytes))
	if c.Op == "prune" && !c.Yes && !bytes.Equal(pre.LogBytes, post.LogBytes) {
		r.viol("C09", "dry-run-wrote", "log-bytes", "prune without --yes changed the log (%d -> %d bytes)", len(pre.LogBytes), len(post.LogBytes))
	}

	if c.Loose {
		pred = Pred{Class: Either}
		r.W.Count.Inc("gen.loose_inputs")
		if ok {
			// whatever it did, it must have left a store on which every
			// invariant holds; the model follows the observation
			r.resync(post)
			r.Resyncs--
			r.afterStep(post)
			return p
		}
	}
	if !ok {
		// the command failed (or crashed)
		if pred.Class == MustOK && !ioFired {
			// (an injected I/O error is a legitimate reason to fail; what the
			// failure may leave behind is judged below all the same)
			r.viol(orDefault(pred.Prop, "C10"), "rejected-valid", shape+"|@"+preClass, "%s in state %s should succeed but failed: %s", c.String(), preClass, tail(p.Stderr))
		}
		// C10: nothing may have changed
		if ds := SameObs(pre, post); len(ds) > 0 {
			r.viol("C10", "failed-but-changed", shape+"|@"+preClass, "%s failed (%s) yet the observable state changed: %s", c.String(), tail(p.Stderr), strings.Join(ds, "; "))
			r.resync(post)
		} else if logChanged {
			r.viol("C10", "failed-but-wrote", shape+"|@"+preClass, "%s failed (%s) yet the log changed (%d -> %d bytes)", c.String(), tail(p.Stderr), len(pre.LogBytes), len(post.LogBytes))
		}
		if dirListSansLock(pre.DirList) != dirListSansLock(post.DirList) && !logChanged && !ioFired {
			r.viol("C10", "failed-but-touched-dir", shape, "%s failed yet .ergo changed: %s -> %s", c.String(), pre.DirList, post.DirList)
		}
		r.afterStep(post)
		return p
	}

	// success
	if pred.Class == MustFail {
		r.viol(orDefault(pred.Prop, "C10"), "accepted-invalid", shape+"|@"+preClass+"|"+sigWord(pred.Why), "%s in state %s must be rejected (%s) but succeeded: %s", c.String(), preClass, pred.Why, q(string(p.Stdout)))
		r.resync(post)
		r.afterStep(post)
		return p
	}
	rm := asMap(reply)

	if c.IsRead() || pred.ChangesNothing {
		if ds := SameObs(pre, post); len(ds) > 0 {
			prop := "C12"
			if c.Op == "compact" {
				prop = "C05"
				onlyResults := true
				for _, d := range ds {
					if !strings.Contains(d, "result") {
						onlyResults = false
					}
				}
				if onlyResults {
					prop = "C20" // results dropped, duplicated, reordered or altered by compaction
				} else if textChanged(pre, post) {
					prop = "C17" // a title or body does not come back as it went in
				}
			} else if c.Op == "init" {
				prop = "C18"
			}
			r.viol(prop, "changed-by-"+c.Op, shape, "%s changed the observable state: %s", c.String(), strings.Join(ds, "; "))
			r.resync(post)
		}
		if c.IsRead() && (logChanged || dirListSansLock(pre.DirList) != dirListSansLock(post.DirList)) {
			r.viol("C12", "read-purity", c.Op+"-files", "read-only %s changed .ergo: %s -> %s", shape, pre.DirList, post.DirList)
		}
		if c.Op == "compact" {
			if r.forgotten == nil {
				r.forgotten = map[string]bool{}
			}
			for id := range r.M.Pruned {
				r.forgotten[id] = true
			}
		}
		r.checkReadReply(c, rm, reply, post)
		r.afterStep(post)
		return p
	}

	// history only grows (C12d)
	if c.Op != "compact" {
		if okp, why := jsonLinesEqualPrefix(pre.LogBytes, post.LogBytes); !okp {
			r.viol("C12", "history-prefix", c.Op, "%s rewrote history: %s", c.String(), why)
		}
	}
	preWhole, _ := wholeLines(pre.LogBytes)
	if okw, why := wholeLines(post.LogBytes); !okw && (preWhole || logChanged) {
		r.viol("C02", "whole-lines", c.Op, "after %s: %s", c.String(), why)
	}

	// pick the admissible post-state that matches the observation
	n := r.finish(c, pred, rm, p, post)
	if n == nil {
		// whether or not the effect is the documented one, what the reply
		// says must be what the following read shows
		r.checkReply(c, pred, rm, p, post)
		r.resync(post)
		r.afterStep(post)
		return p
	}
	r.M = n
	r.Effects++
	r.checkReply(c, pred, rm, p, post)
	r.checkUntouched(c, pred, pre, post)
	r.learn(post, p)
	r.afterStep(post)
	return p
}

func orDefault(s, d string) string {
	if s == "" {
		return d
	}
	return s
}

func sigWord(s string) string {
	s = strings.ToLower(s)
	var b strings.Builder
	for _, c := range s {
		switch {
		case c >= 'a' && c <= 'z', c >= '0' && c <= '9':
			b.WriteRune(c)
		case c == ' ' || c == '→' || c == '-' || c == '=':
			b.WriteByte('-')
		}
	}
	out := b.String()
	// drop ids (six upper-case chars were lower-cased): keep the message class only
	out = regexp.MustCompile(`-[a-z0-9]{6}$`).ReplaceAllString(out, "")
	if len(out) > 60 {
		out = out[:60]
	}
	return out
}

// finish binds placeholder ids to the real ones and selects the alternative
// that matches the observation; reports the differences otherwise.
func (r *Run) finish(c Cmd, pred Pred, rm map[string]any, p *Proc, post *Obs) *Model {
	shape := c.Shape()
	preClass := r.preClass(c)
	var newIDs []string
	switch c.Op {
	case "new_task", "new_epic":
		id := str(rm, "id")
		if c.Human {
			id = strings.TrimSpace(strings.SplitN(string(p.Stdout), "\n", 2)[0])
		}
		newIDs = []string{id}
	case "plan":
		if rm != nil {
			newIDs = append(newIDs, str(asMap(rm["epic"]), "id"))
			for _, t := range asList(rm["tasks"]) {
				newIDs = append(newIDs, str(asMap(t), "id"))
			}
		} else if c.Human && c.Plan != nil {
			// human output carries no ids: find the new items by their titles
			for _, id := range post.IDs() {
				oi := post.Items[id]
				if r.M.Items[id] == nil && oi.InList && oi.Kind == "epic" && oi.LTitle == *c.Plan.Title {
					newIDs = []string{id}
					for _, t := range c.Plan.Tasks {
						for _, tid := range post.IDs() {
							ti := post.Items[tid]
							if r.M.Items[tid] == nil && ti.InList && ti.LEpic == id && ti.LTitle == *t.Title {
								newIDs = append(newIDs, tid)
							}
						}
					}
					break
				}
			}
		}
	}
	if pred.Creates > 0 {
		if len(newIDs) != pred.Creates {
			r.viol("C16", "reply-ids", shape, "%s should report %d new ids, reported %v", c.String(), pred.Creates, newIDs)
			return nil
		}
		seen := map[string]bool{}
		for _, id := range newIDs {
			if !idRe.MatchString(id) {
				r.viol("C16", "id-format", shape, "%s reported id %q (want six upper-case characters)", c.String(), id)
			}
			if r.M.Items[id] != nil || seen[id] {
				r.viol("C16", "id-not-fresh", shape, "%s reported id %s which already exists", c.String(), id)
				return nil
			}
			if r.M.Pruned[id] && !r.forgotten[id] {
				r.viol("C09", "id-reissued", "pruned-id-reissued", "%s issued id %s, which was pruned earlier", c.String(), id)
			}
			seen[id] = true
		}
	}
	if pred.NoReady {
		if str(rm, "status") != "no_ready" && !c.Human {
			if id := str(rm, "id"); id != "" {
				r.viol("C08", "claim-when-nothing-ready", shape, "claim returned %s although no task is ready (scope %v)", id, c.Epic)
				return nil
			}
		}
	} else if pred.ClaimOK != nil && !c.Human {
		if str(rm, "status") == "no_ready" {
			r.viol("C08", "no-ready-when-ready", shape, "claim said no_ready although %v ready", keys(pred.ClaimOK))
			return nil
		}
		if id := str(rm, "id"); !pred.ClaimOK[id] {
			it := r.M.Items[id]
			what := "not a ready task"
			if it != nil && r.M.Ready(id) {
				what = "ready but not the oldest"
			} else if it != nil && it.IsEpic {
				what = "an epic"
			}
			r.viol("C08", "claim-choice", sigWord(what), "claim returned %s (%s); acceptable: %v", id, what, keys(pred.ClaimOK))
			return nil
		}
	}
	var best []Diff
	var bestModel *Model
	for i, alt := range pred.Alts {
		n := alt.Clone()
		if pred.Creates == 1 {
			n.Rename(newID, newIDs[0])
		} else if pred.Creates > 1 {
			for j, id := range newIDs {
				n.Rename(planPlaceholder(j), id)
			}
		}
		ds := CompareObs(post, n, true)
		if len(ds) == 0 {
			if i > 0 {
				r.W.Count.Inc("model.alt_taken")
			}
			return n
		}
		if best == nil || len(ds) < len(best) {
			best, bestModel = ds, n
		}
	}
	_ = bestModel
	// report, tagged by the first differing field
	d := best[0]
	var all []string
	for _, x := range best {
		all = append(all, x.Detail)
	}
	prop := d.Prop
	switch c.Op {
	case "plan":
		prop = "C11" // plan creates exactly the described graph
	case "prune":
		prop = "C09"
	case "sequence", "sequence_rm":
		prop = "C07"
	}
	r.viol(prop, "post-state", shape+"|@"+preClass+"|"+d.Field, "after %s (pre-state %s): %s", c.String(), preClass, strings.Join(all, "; "))
	return nil
}

func keys(m map[string]bool) []string {
	var k []string
	for x := range m {
		k = append(k, x)
	}
	sort.Strings(k)
	return k
}

// learn copies facts that only ergo decides (ids' timestamps, uuids) into the model.
func (r *Run) learn(o *Obs, p *Proc) {
	nows := map[string]bool{}
	if p != nil {
		for _, v := range p.NowVals {
			nows[fmtTS(v)] = true
		}
	}
	for id, it := range r.M.Items {
		oi := o.Items[id]
		if oi == nil || !oi.Shown {
			continue
		}
		if it.CreatedAt == "" {
			it.CreatedAt = oi.CreatedAt
			it.CreatedNs, _ = parseTS(oi.CreatedAt)
			it.UUID = oi.UUID
		}
		if oi.ClaimedAt != it.ClaimedAt {
			it.ClaimedAt = oi.ClaimedAt
		}
		it.UpdatedAt = oi.UpdatedAt
	}
}

// checkUntouched: items the command does not address keep every field.
func (r *Run) checkUntouched(c Cmd, pred Pred, pre, post *Obs) {
	touched := map[string]bool{}
	for _, id := range pred.Touched {
		touched[id] = true
	}
	if c.Op == "claim" || c.Op == "sequence" || c.Op == "sequence_rm" || c.Op == "prune" {
		// edges and prunes legitimately change deps/rdeps/flags of neighbours;
		// those fields are judged against the model. Compare the rest.
	}
	for id, x := range pre.Items {
		y := post.Items[id]
		if y == nil || touched[id] || !x.Shown || !y.Shown {
			continue
		}
		if x.Title != y.Title || x.Body != y.Body || x.UUID != y.UUID || x.CreatedAt != y.CreatedAt {
			r.viol("C11", "bystander-changed", c.Op, "%s altered untouched item %s: title %s->%s body %s->%s uuid %s->%s created_at %s->%s", c.Shape(), id, q(x.Title), q(y.Title), q(x.Body), q(y.Body), x.UUID, y.UUID, x.CreatedAt, y.CreatedAt)
		}
		if c.Op == "claim" && x.State == y.State && x.ClaimedBy == y.ClaimedBy || c.Op != "claim" {
			if x.UpdatedAt != y.UpdatedAt && c.Op != "compact" {
				r.viol("C05", "bystander-updated-at", c.Op, "%s changed updated_at of untouched item %s: %s -> %s", c.Shape(), id, x.UpdatedAt, y.UpdatedAt)
			}
			if x.ClaimedAt != y.ClaimedAt {
				r.viol("C05", "bystander-claimed-at", c.Op, "%s changed claimed_at of untouched item %s: %s -> %s", c.Shape(), id, x.ClaimedAt, y.ClaimedAt)
			}
		}
		if len(x.Results) == len(y.Results) {
			for i := range x.Results {
				if x.Results[i] != y.Results[i] {
					r.viol("C20", "bystander-result", c.Op, "%s altered result[%d] of untouched item %s: %+v -> %+v", c.Shape(), i, id, x.Results[i], y.Results[i])
				}
			}
		}
	}
}

func (r *Run) checkReadReply(c Cmd, rm map[string]any, reply any, post *Obs) {
	if c.Human {
		return
	}
	switch c.Op {
	case "prune":
		pred := r.M.PruneTargets()
		got := sortedCopy(strList(rm["pruned_ids"]))
		if !eqStrs(got, pred) {
			r.viol("C09", "dry-run-set", "dry-run-set", "prune (dry run) reports %v, policy gives %v", got, pred)
		}
		if dr, _ := rm["dry_run"].(bool); !dr {
			r.viol("C16", "prune-dry-flag", "dry_run", "prune without --yes reports dry_run=false")
		}
	case "where":
		want := filepath.Join(r.W.Proj, ".ergo")
		if str(rm, "ergo_dir") != want {
			r.viol("C18", "where", "ergo_dir", "where (cwd %q dir %q) reports %s, want %s", c.Sub, c.DirMode, str(rm, "ergo_dir"), want)
		}
	case "show":
		id := r.M.Resolve(c.ID)
		m := rm
		if em := asMap(rm["epic"]); em != nil {
			m = em
		}
		if str(m, "id") != id {
			r.viol("C16", "show-id", "show-id", "show %s returned id %s", id, str(m, "id"))
		}
	case "list":
		if asList(reply) == nil && reply != nil {
			if _, isList := reply.([]any); !isList {
				r.viol("C16", "list-shape", "list-not-array", "list --json returned a non-array")
			}
		}
		if c.LReady {
			var got []string
			for _, x := range asList(reply) {
				got = append(got, str(asMap(x), "id"))
			}
			sort.Strings(got)
			var want []string
			scope := ""
			if c.Epic != nil {
				scope = r.M.Resolve(*c.Epic)
			}
			for _, t := range r.M.ReadySet(scope) {
				want = append(want, t.ID)
			}
			sort.Strings(want)
			if !eqStrs(got, want) {
				r.viol("C08", "list-ready", "list-ready-scope", "list --ready (epic %q) shows %v, ready tasks are %v", scope, got, want)
			}
		}
	}
}

// checkReply: what a success value reports is what the following read shows (C16).
func (r *Run) checkReply(c Cmd, pred Pred, rm map[string]any, p *Proc, post *Obs) {
	if c.Human || rm == nil {
		return
	}
	shape := c.Shape()
	bad := func(field, format string, a ...any) {
		r.viol("C16", "reply-vs-read", shape+"|"+field, "%s: "+format, append([]any{c.String()}, a...)...)
	}
	switch c.Op {
	case "new_task", "new_epic":
		id := str(rm, "id")
		oi := post.Items[id]
		if oi == nil || !oi.Shown {
			bad("id", "reported id %s cannot be shown", id)
			return
		}
		wantKind := "task"
		if c.Op == "new_epic" {
			wantKind = "epic"
		}
		if str(rm, "kind") != wantKind {
			bad("kind", "reported kind %q", str(rm, "kind"))
		}
		if str(rm, "state") != oi.State {
			bad("state", "reported state %q, show says %q (claimed_by %q)", str(rm, "state"), oi.State, oi.ClaimedBy)
		}
		if str(rm, "title") != oi.Title {
			bad("title", "reported title %s, show says %s", q(str(rm, "title")), q(oi.Title))
		}
		if str(rm, "body") != oi.Body {
			bad("body", "reported body %s, show says %s", q(str(rm, "body")), q(oi.Body))
		}
		if str(rm, "epic_id") != oi.Epic {
			bad("epic_id", "reported epic_id %q, show says %q", str(rm, "epic_id"), oi.Epic)
		}
		if str(rm, "uuid") != oi.UUID {
			bad("uuid", "reported uuid %q, show says %q", str(rm, "uuid"), oi.UUID)
		}
		if str(rm, "created_at") != oi.CreatedAt {
			bad("created_at", "reported created_at %q, show says %q", str(rm, "created_at"), oi.CreatedAt)
		}
	case "set":
		id := r.M.Resolve(c.ID)
		oi := post.Items[id]
		if str(rm, "id") != id {
			bad("id", "reported id %q", str(rm, "id"))
		}
		if c.Raw == nil {
			// updated_fields names the fields the request carried
			flagsMode := c.Mode == "flags" || c.Mode == "bodystdin"
			has := func(p *string, blankCounts bool) bool {
				if p == nil {
					return false
				}
				if flagsMode && *p == "" {
					return false
				}
				if blankCounts && flagsMode && blank(*p) {
					return false
				}
				return true
			}
			var want []string
			for _, f := range []struct {
				name string
				p    *string
				b    bool
			}{{"title", c.Title, true}, {"body", c.Body, false}, {"epic", c.Epic, false}, {"state", c.State, false}, {"claim", c.Claim, false}, {"result_path", c.RPath, false}, {"result_summary", c.RSum, false}} {
				if has(f.p, f.b) {
					want = append(want, f.name)
				}
			}
			got := sortedCopy(strList(rm["updated_fields"]))
			if !eqStrs(got, sortedCopy(want)) {
				bad("updated_fields", "reported updated_fields %v, the request carried %v", got, sortedCopy(want))
			}
		}
		if oi != nil && oi.Shown && oi.Kind == "task" {
			if str(rm, "state") != oi.State {
				bad("state", "reported state %q, show says %q", str(rm, "state"), oi.State)
			}
			if str(rm, "claimed_by") != oi.ClaimedBy {
				bad("claimed_by", "reported claimed_by %q, show says %q", str(rm, "claimed_by"), oi.ClaimedBy)
			}
		}
	case "claim", "claim_id":
		if str(rm, "status") == "no_ready" {
			return
		}
		id := str(rm, "id")
		oi := post.Items[id]
		if oi == nil || !oi.Shown {
			bad("id", "claimed id %s cannot be shown", id)
			return
		}
		if oi.State != "doing" || oi.ClaimedBy != c.Agent {
			r.viol("C01", "winner-not-holder", shape, "claim told %s it won %s, but the task is %s claimed by %q", c.Agent, id, oi.State, oi.ClaimedBy)
		}
		if str(rm, "agent_id") != c.Agent {
			bad("agent_id", "reported agent_id %q", str(rm, "agent_id"))
		}
		if str(rm, "agent_id") != oi.ClaimedBy {
			// the claimant the reply names is the claimant the next read shows
			bad("claimant", "reported agent_id %q, show says claimed_by %q", str(rm, "agent_id"), oi.ClaimedBy)
		}
		if str(rm, "state") != oi.State {
			bad("state", "reported state %q, show says %q", str(rm, "state"), oi.State)
		}
		if str(rm, "title") != oi.Title || str(rm, "body") != oi.Body || str(rm, "epic") != oi.Epic {
			bad("text", "reported title/body/epic differ from show")
		}
		if str(rm, "claimed_at") != oi.ClaimedAt {
			bad("claimed_at", "reported claimed_at %q, show says %q", str(rm, "claimed_at"), oi.ClaimedAt)
		}
	case "sequence", "sequence_rm":
		for _, e := range asList(rm["edges"]) {
			em := asMap(e)
			from, to := str(em, "from_id"), str(em, "to_id")
			oi := post.Items[from]
			has := oi != nil && contains(oi.Deps, to)
			if c.Op == "sequence" && !has {
				bad("edge", "reported edge %s->%s is not shown", from, to)
			}
			if c.Op == "sequence_rm" && has {
				bad("edge", "reported removal of %s->%s but it is still shown", from, to)
			}
		}
		wantN := len(c.IDs) - 1
		if len(asList(rm["edges"])) != wantN {
			bad("edges", "reported %d edges for %d ids", len(asList(rm["edges"])), len(c.IDs))
		}
	case "prune":
		got := sortedCopy(strList(rm["pruned_ids"]))
		if !eqStrs(got, pred.PrunedIDs) {
			r.viol("C09", "prune-set", "prune-set", "prune --yes reports %v, policy gives %v", got, pred.PrunedIDs)
		}
		if dr, _ := rm["dry_run"].(bool); dr != !c.Yes {
			bad("dry_run", "dry_run=%v with yes=%v", dr, c.Yes)
		}
	case "plan":
		em := asMap(rm["epic"])
		eid := str(em, "id")
		if oi := post.Items[eid]; oi == nil || oi.Title != str(em, "title") || oi.UUID != str(em, "uuid") || oi.CreatedAt != str(em, "created_at") {
			r.viol("C11", "plan-reply", "epic", "plan reply epic %v does not match show", em)
		}
		tasks := asList(rm["tasks"])
		for i, t := range tasks {
			tm := asMap(t)
			if i < len(c.Plan.Tasks) && str(tm, "title") != *c.Plan.Tasks[i].Title {
				r.viol("C11", "plan-reply", "order", "plan reply task %d is %s, input order says %s", i, q(str(tm, "title")), q(*c.Plan.Tasks[i].Title))
			}
		}
		// edges reported == edges shown among new tasks
		var got, want []string
		for _, e := range asList(rm["edges"]) {
			em := asMap(e)
			got = append(got, str(em, "from_id")+">"+str(em, "to_id"))
		}
		for _, t := range tasks {
			id := str(asMap(t), "id")
			if oi := post.Items[id]; oi != nil {
				for _, d := range oi.Deps {
					want = append(want, id+">"+d)
				}
			}
		}
		sort.Strings(got)
		sort.Strings(want)
		if !eqStrs(got, want) {
			r.viol("C11", "plan-reply", "edges", "plan reply edges %v, shown edges %v", got, want)
		}
	case "compact":
		if str(rm, "kind") != "compact" || str(rm, "status") != "ok" {
			bad("shape", "compact reply %v", rm)
		}
	}
}

// resync: after a reported violation (or a fault) adopt the observed state so
// that strict checking can resume.
func (r *Run) resync(o *Obs) {
	r.Resyncs++
	r.M = ModelFromObs(o, r.M)
}

// ModelFromObs rebuilds a model from an observation; ids that vanished are
// remembered as pruned; creation order is kept and extended.
func ModelFromObs(o *Obs, old *Model) *Model {
	m := NewModel(old.Root)
	m.Order = append([]string(nil), old.Order...)
	for k := range old.Pruned {
		m.Pruned[k] = true
	}
	inOrder := map[string]bool{}
	for _, id := range m.Order {
		inOrder[id] = true
	}
	var fresh []*ObsItem
	for _, id := range o.IDs() {
		oi := o.Items[id]
		if !oi.InList {
			continue
		}
		it := &MItem{ID: id, IsEpic: oi.Kind == "epic", Title: oi.LTitle, State: oi.LState, ClaimedBy: oi.LClaimedBy, Epic: oi.LEpic, Deps: map[string]bool{}}
		if oi.Shown {
			it.Title, it.Body, it.UUID, it.CreatedAt, it.UpdatedAt, it.ClaimedAt = oi.Title, oi.Body, oi.UUID, oi.CreatedAt, oi.UpdatedAt, oi.ClaimedAt
			it.CreatedNs, _ = parseTS(oi.CreatedAt)
			for _, d := range oi.Deps {
				it.Deps[d] = true
			}
			for _, rr := range oi.Results {
				it.Results = append(it.Results, MResult{Summary: rr.Summary, Path: rr.Path, Sha: rr.Sha, FileURL: rr.FileURL})
			}
		}
		if it.IsEpic {
			it.State = "todo"
			if oi.Shown && oi.State != "" {
				it.State = "todo"
			}
		}
		if old.Items[id] != nil {
			it.Ord = old.Items[id].Ord
		}
		m.Items[id] = it
		if !inOrder[id] {
			fresh = append(fresh, oi)
		}
	}
	sort.Slice(fresh, func(i, j int) bool {
		if fresh[i].CreatedAt != fresh[j].CreatedAt {
			return fresh[i].CreatedAt < fresh[j].CreatedAt
		}
		return fresh[i].ID < fresh[j].ID
	})
	for _, oi := range fresh {
		m.Items[oi.ID].Ord = len(m.Order)
		m.Order = append(m.Order, oi.ID)
	}
	for id := range old.Items {
		if m.Items[id] == nil {
			m.Pruned[id] = true
		}
	}
	return m
}

// afterStep: invariants that must hold at every quiescent point.
func (r *Run) afterStep(o *Obs) {
	var vl VList
	CheckInvariants(o, &vl)
	CheckFlags(o, &vl)
	r.absorb(&vl)
	r.States[r.M.StateKey()] = true
}

// ---------------------------------------------------------------- file / disk steps

func (r *Run) DoFile(f *FileOp) {
	full := filepath.Join(r.W.Proj, f.Path)
	os.MkdirAll(filepath.Dir(full), 0o755)
	switch f.Kind {
	case "file":
		if st, err := os.Lstat(full); err == nil && st.IsDir() {
			return // never replace a directory by a file
		}
		var keep *time.Time
		if st, err := os.Stat(full); err == nil && f.KeepMeta {
			t := st.ModTime()
			keep = &t
			r.W.Count.Inc("fault.rewrite_same_mtime")
		}
		os.Remove(full)
		if err := os.WriteFile(full, []byte(f.Content), 0o644); err != nil {
			harnessf("file op: %v", err)
		}
		// the file's mtime is recorded by ergo as evidence: take it from the
		// simulated clock, not from the real one
		mt := time.Unix(0, r.W.Clock.Now).UTC()
		if keep != nil {
			mt = *keep
		}
		os.Chtimes(full, mt, mt)
	case "dir":
		os.MkdirAll(full, 0o755)
	case "symlink":
		os.Remove(full)
		os.Symlink(f.Target, full)
	case "remove":
		os.RemoveAll(full)
	case "fifo":
		os.Remove(full)
		syscall.Mkfifo(full, 0o644)
	}
}

// settledBytes: the log without an unterminated last fragment.
func settledBytes(b []byte) []byte {
	if n := bytes.LastIndexByte(b, '\n'); n >= 0 {
		return b[:n+1]
	}
	return nil
}

func (r *Run) logPath() string {
	p, _, _ := storeFiles(r.W.Proj)
	return p
}

func (r *Run) DoDisk(d *DiskOp) {
	dir := filepath.Join(r.W.Proj, ".ergo")
	lp := r.logPath()
	switch d.Kind {
	case "inflate", "merge_cycle", "merge_pruned", "legacy_task", "tail_partial_batch", "tail_fragment", "tail_torn":
		// these edit the log as an editor, a merge or a dying writer would: all
		// of them start from a log that ends in a newline. After a tail that a
		// crash left unterminated they would glue their bytes onto its last
		// event, a file no crash and no merge produces: not applied then
		if b, err := os.ReadFile(lp); err == nil && len(b) > 0 && b[len(b)-1] != '\n' {
			r.Obs = nil
			return
		}
	}
	switch d.Kind {
	case "lock_missing":
		os.Remove(filepath.Join(dir, "lock"))
		r.W.Count.Inc("fault.lock_missing")
	case "tmp_stale":
		os.WriteFile(lp+".tmp", []byte(d.Arg), 0o644)
		r.W.Count.Inc("fault.tmp_stale")
	case "tail_torn":
		b, _ := os.ReadFile(lp)
		n := d.N
		if n > 0 && n < len(b) {
			// only cut inside the last line: that is what a crash can leave
			lastNL := bytes.LastIndexByte(b[:len(b)-1], '\n')
			if len(b)-n <= lastNL+1 {
				n = len(b) - (lastNL + 2)
			}
			if n > 0 {
				os.WriteFile(lp, b[:len(b)-n], 0o644)
				r.W.Count.Inc("fault.tail_torn")
				r.Faults++
			}
		}
	case "inflate":
		// a long history: many large body updates of one live task (log length
		// is part of the quantifier; big logs change allocation, GC and buffer
		// behaviour inside ergo)
		ts := r.M.Tasks()
		if len(ts) == 0 {
			break
		}
		id := ts[d.Pos%len(ts)].ID
		rng := NewSplitMix(uint64(d.Pos) + 3)
		f, err := os.OpenFile(lp, os.O_APPEND|os.O_WRONLY, 0o644)
		if err != nil {
			break
		}
		for i := 0; i < d.N; i++ {
			t := fmtTS(r.W.Clock.Next())
			body := bigText(rng, 60000+rng.Intn(60000))
			data, _ := json.Marshal(map[string]any{"id": id, "body": body, "ts": t})
			fmt.Fprintf(f, `{"type":"body","ts":%q,"data":%s}`+"\n", t, data)
		}
		f.Close()
		r.W.Count.Inc("fault.inflated_log")
	case "merge_cycle":
		// a hand-merged log: two branches each recorded one direction of a
		// dependency between two children of one epic. Each was valid alone;
		// the union holds a cycle that no CLI path could have created.
		var pair []string
		for _, e := range r.M.Epics() {
			var kids []string
			for _, t := range r.M.Tasks() {
				if t.Epic == e.ID && !finished(t.State) {
					kids = append(kids, t.ID)
				}
			}
			if len(kids) >= 2 {
				pair = kids[:2]
				break
			}
		}
		b, err := os.ReadFile(lp)
		if pair == nil || err != nil || (len(b) > 0 && b[len(b)-1] != '\n') {
			break
		}
		f, err := os.OpenFile(lp, os.O_APPEND|os.O_WRONLY, 0o644)
		if err != nil {
			break
		}
		for _, p := range [][2]string{{pair[0], pair[1]}, {pair[1], pair[0]}} {
			t := fmtTS(r.W.Clock.Next())
			fmt.Fprintf(f, `{"type":"link","ts":%q,"data":{"from_id":%q,"to_id":%q,"type":"depends"}}`+"\n", t, p[0], p[1])
			r.M.Items[p[0]].Deps[p[1]] = true
		}
		f.Close()
		r.W.Count.Inc("fault.merge_cycle")
		r.Faults++
	case "merge_pruned":
		// a hand-merged log: the events that mention one pruned id (create,
		// updates, links, tombstone) appear in a different order. The id must
		// stay gone and nothing else may change.
		var pruned []string
		for id := range r.M.Pruned {
			if !r.forgotten[id] {
				pruned = append(pruned, id)
			}
		}
		sort.Strings(pruned)
		b, err := os.ReadFile(lp)
		if err != nil || len(pruned) == 0 || len(b) == 0 || b[len(b)-1] != '\n' {
			break
		}
		id := pruned[d.N%len(pruned)]
		ls := splitKeep(b)
		var idx []int
		for i, l := range ls {
			// only the pruned id's OWN events (create, updates, results, links
			// with it as an endpoint, tombstone) - not other items' events that
			// merely mention it, e.g. a task's successive epic assignments,
			// whose mutual order is that task's history
			var ev struct {
				Data struct {
					ID     string `json:"id"`
					TaskID string `json:"task_id"`
					From   string `json:"from_id"`
					To     string `json:"to_id"`
				} `json:"data"`
			}
			if json.Unmarshal(bytes.TrimSpace(l), &ev) != nil {
				continue
			}
			if ev.Data.ID == id || ev.Data.TaskID == id || ev.Data.From == id || ev.Data.To == id {
				idx = append(idx, i)
			}
		}
		if len(idx) < 2 {
			break
		}
		rng := NewSplitMix(uint64(d.Pos) + 11)
		perm := append([]int(nil), idx...)
		for i := len(perm) - 1; i > 0; i-- {
			j := rng.Intn(i + 1)
			perm[i], perm[j] = perm[j], perm[i]
		}
		out := append([][]byte(nil), ls...)
		for k, i := range idx {
			out[i] = ls[perm[k]]
		}
		os.WriteFile(lp, joinLines(out), 0o644)
		r.W.Count.Inc("fault.merge_reorder_pruned")
		r.Faults++
		o := r.observe()
		for _, f := range o.Failures {
			r.viol("C09", "merge-order-breaks-reads", "read-failed", "after reordering the %d events of pruned id %s a read fails: %s", len(idx), id, f)
		}
		if it := o.Items[id]; it != nil && (it.InList || it.Shown) {
			r.viol("C09", "resurrected-by-merge-order", "pruned-id-visible", "after reordering the %d events of pruned id %s (as a hand merge could) the id is visible again", len(idx), id)
		}
		if len(o.Failures) == 0 {
			if ds := CompareObs(o, r.M, true); len(ds) > 0 {
				r.viol("C09", "merge-order-changes-state", ds[0].Field, "after reordering the events of pruned id %s the observable state differs: %s", id, ds[0].Detail)
				r.resync(o)
			}
		}
		return
	case "legacy_task":
		// an item as an old ergo version recorded it: no title, the title
		// lives in the body (optionally under a markdown heading)
		bodies := []string{"Fix the flaky test\nmore detail", "## Goal\nShip the thing\n\n- a\n- b", "# Only a heading", "   \n\nLate title line", ""}
		body := bodies[d.N%len(bodies)]
		ts := fmtTS(r.W.Clock.Next())
		data, _ := json.Marshal(map[string]any{"id": d.Arg, "uuid": fmt.Sprintf("00000000-0000-4000-8000-%012d", d.N), "epic_id": "", "state": "todo", "title": "", "body": body, "created_at": ts})
		line := fmt.Sprintf(`{"type":"new_task","ts":%q,"data":%s}`+"\n", ts, data)
		if b, err := os.ReadFile(lp); err == nil && (len(b) == 0 || b[len(b)-1] == '\n') && !bytes.Contains(b, []byte(`"id":"`+d.Arg+`"`)) {
			f, err := os.OpenFile(lp, os.O_APPEND|os.O_WRONLY, 0o644)
			if err == nil {
				f.WriteString(line)
				f.Close()
				r.W.Count.Inc("fault.legacy_item")
			}
		}
	case "tail_partial_batch":
		// what a torn multi-event append leaves: the first line (claim) whole,
		// the second (state) cut off
		var id string
		for _, t := range r.M.Tasks() {
			if t.State == "todo" && t.ClaimedBy == "" {
				id = t.ID
				break
			}
		}
		b, err := os.ReadFile(lp)
		if id == "" || err != nil || (len(b) > 0 && b[len(b)-1] != '\n') {
			break
		}
		if f, err := os.OpenFile(lp, os.O_APPEND|os.O_WRONLY, 0o644); err == nil {
			t := fmtTS(r.W.Clock.Next())
			fmt.Fprintf(f, `{"type":"claim","ts":%q,"data":{"id":%q,"agent_id":"torn@h","ts":%q}}`+"\n"+`{"type":"state","ts":%q,"data":{"id":%q,"sta`, t, id, t, t, id)
			f.Close()
			r.W.Count.Inc("fault.tail_partial_batch")
			r.Faults++
		}
	case "tail_unterminated":
		// what a write cut one byte short leaves: a whole last event without
		// its newline
		if b, err := os.ReadFile(lp); err == nil && len(b) > 1 && b[len(b)-1] == '\n' && b[len(b)-2] == '}' {
			os.Truncate(lp, int64(len(b)-1))
			r.W.Count.Inc("fault.tail_unterminated")
			r.Faults++
		}
	case "tail_fragment":
		// what a torn append leaves: a prefix of a JSON line without newline
		f, err := os.OpenFile(lp, os.O_APPEND|os.O_WRONLY, 0o644)
		if err == nil {
			f.WriteString(d.Arg)
			f.Close()
			r.W.Count.Inc("fault.tail_fragment")
			r.Faults++
		}
	}
	r.Obs = nil
}

// textChanged: did some item's title or body change between two observations?
func textChanged(a, b *Obs) bool {
	for id, x := range a.Items {
		y := b.Items[id]
		if y == nil {
			continue
		}
		if x.InList && y.InList && x.LTitle != y.LTitle {
			return true
		}
		if x.Shown && y.Shown && (x.Title != y.Title || x.Body != y.Body) {
			return true
		}
	}
	return false
}
