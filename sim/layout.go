package main

// C18: every command finds the same store, however it is started and however
// the store is laid out; init never hides data. An ordinary sequential run,
// but every command gets a freshly drawn start directory and --dir spelling,
// the store is plans-only / legacy events-only / both / lock-less / shadowed by
// a decoy store in an enclosing directory, and init is run at random points.
// The refinement oracle then is the property: a write through one spelling
// must be visible through all others.

import (
	"os"
	"path/filepath"
)

var subs = []string{"", "", "a", "a/b", "a/b/c", "x y/z", "deep/er/est", "lnkin", "lnkout", "lnkout/sub"}
var dirModes = []string{"", "", "", "abs", "rel", "ergo", "absergo", "slash", "dotdot", "deep", "dot", "dot", "relsub", "ergoslash", "absergoslash"}

func runLayoutGenerated(bin string, seed uint64) *RunReport {
	sc, rng := newScenario("C18", "layout", seed)
	g := NewGen(rng.Uint64())
	n := 14 + rng.Intn(16)
	g.W["init"] = 8
	g.W["where"] = 6
	g.W["compact"] = 5
	g.W["plan"] = 5
	g.BadBias = 6
	sc.Config.Layout = []string{"", "legacy", "both", "nolock", "nested", "legacy+nested", "legacy"}[rng.Intn(7)]
	g.W["show"], g.W["list"] = 8, 6
	r := NewRun(bin, sc)
	defer r.Close()
	r.InitStore()
	// start directories that are inside the project only through a symbolic
	// link: to a directory of the project, and to one outside it. The logical
	// path (what the shell's PWD says) is inside the project.
	os.MkdirAll(filepath.Join(r.W.Proj, "a", "b"), 0o755)
	os.MkdirAll(filepath.Join(r.W.Root, "shared", "sub"), 0o755)
	os.Symlink("a/b", filepath.Join(r.W.Proj, "lnkin"))
	os.Symlink("../shared", filepath.Join(r.W.Proj, "lnkout"))
	if rng.Chance(1, 2) {
		// work products to attach: results carry a file URL that must not
		// depend on how the project was reached
		g.ResPct = 30
		for _, f := range goodFiles[:4] {
			st := Step{File: &FileOp{Path: f, Kind: "file", Content: "result " + f + "\n"}}
			sc.Steps = append(sc.Steps, st)
			r.ExecStep(st)
		}
	}
	for i := 0; i < n; i++ {
		st := g.Next(r.M)
		if st.Cmd != nil {
			c := st.Cmd
			if c.Op != "init" {
				c.Sub = subs[rng.Intn(len(subs))]
				c.DirMode = dirModes[rng.Intn(len(dirModes))]
			} else if rng.Chance(1, 3) {
				// init from the project root with --dir spelled some way (init has
				// its own directory argument; whatever it makes of --dir, it must
				// not plant a second store inside the first)
				c.DirMode = []string{"abs", "absergo", "ergo", "rel", "slash", "dot"}[rng.Intn(6)]
			} else if rng.Chance(1, 2) {
				c.Extra = []string{[]string{".", "./", r.W.Proj}[rng.Intn(3)]}
				if len(c.Extra[0]) > 3 {
					c.Extra[0] = "$PROJ" // expanded at run time (world path differs per run)
				}
			}
			if c.RPath != nil && c.Sub != "" {
				// result paths are relative to the project root, not to cwd
			}
		}
		if rng.Chance(1, 12) {
			st = Step{Disk: &DiskOp{Kind: "lock_missing"}}
		}
		sc.Steps = append(sc.Steps, st)
		r.ExecStep(st)
	}
	return r.Report()
}

// setupLayout arranges the store files per the configured layout (after init).
func (r *Run) setupLayout() {
	dir := filepath.Join(r.W.Proj, ".ergo")
	lay := r.Sc.Config.Layout
	has := func(s string) bool {
		for _, p := range splitPlus(lay) {
			if p == s {
				return true
			}
		}
		return false
	}
	decoy := `{"type":"new_task","ts":"2029-01-01T00:00:00Z","data":{"id":"DECOY1","uuid":"00000000-0000-4000-8000-00000000dec0","epic_id":"","state":"todo","title":"decoy task from the wrong store","body":"","created_at":"2029-01-01T00:00:00Z"}}` + "\n"
	if has("legacy") {
		os.Rename(filepath.Join(dir, "plans.jsonl"), filepath.Join(dir, "events.jsonl"))
	}
	if has("both") {
		os.WriteFile(filepath.Join(dir, "events.jsonl"), []byte(decoy), 0o644)
	}
	if has("nolock") {
		os.Remove(filepath.Join(dir, "lock"))
	}
	if has("nested") {
		// a decoy store in the directory that encloses the project
		outer := filepath.Join(r.W.Root, ".ergo")
		os.MkdirAll(outer, 0o755)
		os.WriteFile(filepath.Join(outer, "plans.jsonl"), []byte(decoy), 0o644)
		os.WriteFile(filepath.Join(outer, "lock"), nil, 0o644)
	}
}

func splitPlus(s string) []string {
	var out []string
	cur := ""
	for _, c := range s {
		if c == '+' {
			out = append(out, cur)
			cur = ""
		} else {
			cur += string(c)
		}
	}
	return append(out, cur)
}
