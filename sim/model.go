package main

// Reference model of ergo, written from help.txt, quickstart.txt, docs/spec.md
// and the property statements — not from internal/ergo. It knows no event
// names, no file layout, no implementation constants.

import (
	"crypto/sha256"
	"encoding/hex"
	"fmt"
	"net/url"
	"os"
	"path"
	"path/filepath"
	"sort"
	"strings"
	"unicode/utf8"
)

type MResult struct {
	Summary string
	Path    string
	Sha     string
	FileURL string
}

type MItem struct {
	ID        string
	UUID      string
	IsEpic    bool
	Title     string
	Body      string
	Epic      string
	State     string
	ClaimedBy string
	ClaimedAt string // learned from observation when a claim is (re)set
	CreatedAt string
	CreatedNs int64
	UpdatedAt string
	Deps      map[string]bool
	Results   []MResult // newest first
	Ord       int
}

type Model struct {
	Items  map[string]*MItem
	Order  []string // creation order, pruned ones included
	Pruned map[string]bool
	Root   string // project root (absolute), for file URLs and result files
	// NoStore: no .ergo directory exists yet; only init can succeed.
	NoStore bool
}

func NewModel(root string) *Model {
	return &Model{Items: map[string]*MItem{}, Pruned: map[string]bool{}, Root: root}
}

func (m *Model) Clone() *Model {
	c := &Model{Items: map[string]*MItem{}, Pruned: map[string]bool{}, Root: m.Root, NoStore: m.NoStore}
	c.Order = append([]string(nil), m.Order...)
	for k, v := range m.Pruned {
		c.Pruned[k] = v
	}
	for id, it := range m.Items {
		n := *it
		n.Deps = map[string]bool{}
		for d := range it.Deps {
			n.Deps[d] = true
		}
		n.Results = append([]MResult(nil), it.Results...)
		c.Items[id] = &n
	}
	return c
}

// Resolve maps a symbolic reference to an id.
func (m *Model) Resolve(ref string) string {
	if strings.HasPrefix(ref, "#") {
		n := 0
		fmt.Sscanf(ref[1:], "%d", &n)
		if n >= 0 && n < len(m.Order) {
			return m.Order[n]
		}
		return "ZZZZZ9" // well-formed but never issued (9 is not in the id alphabet)
	}
	return ref
}

func (m *Model) LiveIDs() []string {
	var ids []string
	for id := range m.Items {
		ids = append(ids, id)
	}
	sort.Strings(ids)
	return ids
}

func (m *Model) Tasks() []*MItem {
	var out []*MItem
	for _, id := range m.LiveIDs() {
		if !m.Items[id].IsEpic {
			out = append(out, m.Items[id])
		}
	}
	return out
}

func (m *Model) Epics() []*MItem {
	var out []*MItem
	for _, id := range m.LiveIDs() {
		if m.Items[id].IsEpic {
			out = append(out, m.Items[id])
		}
	}
	return out
}

func (m *Model) RDeps(id string) []string {
	var out []string
	for _, other := range m.LiveIDs() {
		if m.Items[other].Deps[id] {
			out = append(out, other)
		}
	}
	return out
}

func (m *Model) DepList(id string) []string {
	var out []string
	for d := range m.Items[id].Deps {
		out = append(out, d)
	}
	sort.Strings(out)
	return out
}

func finished(state string) bool { return state == "done" || state == "canceled" }

// epicComplete: every (live) child is done or canceled; no children counts as complete.
func (m *Model) epicComplete(epic string) bool {
	for _, it := range m.Items {
		if !it.IsEpic && it.Epic == epic && !finished(it.State) {
			return false
		}
	}
	return true
}

// Ready: the manual's definition (two levels).
func (m *Model) Ready(id string) bool {
	it := m.Items[id]
	if it == nil || it.IsEpic || it.State != "todo" || it.ClaimedBy != "" {
		return false
	}
	for d := range it.Deps {
		o := m.Items[d]
		if o == nil {
			continue // pruned dependency no longer blocks
		}
		if !finished(o.State) {
			return false
		}
	}
	if it.Epic != "" {
		if e := m.Items[it.Epic]; e != nil {
			for d := range e.Deps {
				de := m.Items[d]
				if de == nil || !de.IsEpic {
					continue
				}
				if !m.epicComplete(d) {
					return false
				}
			}
		}
	}
	return true
}

func (m *Model) Blocked(id string) bool {
	it := m.Items[id]
	if it == nil || it.IsEpic {
		return false
	}
	if it.State == "blocked" {
		return true
	}
	return it.State == "todo" && it.ClaimedBy == "" && !m.Ready(id)
}

func (m *Model) ReadySet(epic string) []*MItem {
	var out []*MItem
	for _, t := range m.Tasks() {
		if epic != "" && t.Epic != epic {
			continue
		}
		if m.Ready(t.ID) {
			out = append(out, t)
		}
	}
	return out
}

// OldestReady returns the set of acceptable answers to `claim`: the ready
// tasks (in scope) whose creation time is minimal.
func (m *Model) OldestReady(epic string) map[string]bool {
	rs := m.ReadySet(epic)
	out := map[string]bool{}
	if len(rs) == 0 {
		return out
	}
	min := rs[0].CreatedNs
	for _, t := range rs {
		if t.CreatedNs < min {
			min = t.CreatedNs
		}
	}
	for _, t := range rs {
		if t.CreatedNs == min {
			out[t.ID] = true
		}
	}
	return out
}

// reach: is target reachable from start along depends-on edges?
func (m *Model) reach(start, target string, seen map[string]bool) bool {
	if start == target {
		return true
	}
	if seen[start] {
		return false
	}
	seen[start] = true
	it := m.Items[start]
	if it == nil {
		return false
	}
	for d := range it.Deps {
		if m.reach(d, target, seen) {
			return true
		}
	}
	return false
}

// ---------------------------------------------------------------- state machine

var legalMove = map[string]map[string]bool{
	"todo":     {"doing": true, "done": true, "blocked": true, "canceled": true},
	"doing":    {"todo": true, "done": true, "blocked": true, "canceled": true, "error": true},
	"blocked":  {"todo": true, "doing": true, "done": true, "canceled": true},
	"done":     {"todo": true},
	"canceled": {"todo": true},
	"error":    {"todo": true, "doing": true, "canceled": true},
}

var sixStates = map[string]bool{"todo": true, "doing": true, "done": true, "blocked": true, "canceled": true, "error": true}

// ---------------------------------------------------------------- predictions

type Outcome int

const (
	MustOK Outcome = iota
	MustFail
	Either
)

func (o Outcome) String() string { return [...]string{"MUST_OK", "MUST_FAIL", "EITHER"}[o] }

// Pred is what the model expects of one command in the current state.
type Pred struct {
	Class Outcome
	Prop  string // property whose rule decides the class (for tagging a mismatch)
	Why   string
	// Alts are the acceptable post-states on success (first is the documented
	// one; others are admissible readings where the documentation is silent).
	// Items created by the command are filled in from the reply by Finish.
	Alts []*Model
	// NoReady: a successful claim must answer no_ready.
	NoReady bool
	// ClaimOK: acceptable ids for a successful oldest-ready claim.
	ClaimOK map[string]bool
	// Creates: number of items a success creates (new: 1, plan: 1+n).
	Creates int
	// Touched: ids whose fields may change.
	Touched []string
	// PrunedIDs expected in the reply of prune (sorted).
	PrunedIDs []string
	// ExpectEdges for sequence replies.
	ChangesNothing bool
}

func fail(prop, why string) Pred { return Pred{Class: MustFail, Prop: prop, Why: why} }
func either(prop, why string, alts ...*Model) Pred {
	return Pred{Class: Either, Prop: prop, Why: why, Alts: alts}
}

type FileFact struct {
	Exists    bool
	Regular   bool
	IsDir     bool
	IsSymlink bool // the final component (or the path as given) is a symlink
	Sha       string
}

func (m *Model) fileFact(clean string) FileFact {
	full := filepath.Join(m.Root, clean)
	var f FileFact
	lst, err := os.Lstat(full)
	if err != nil {
		return f
	}
	f.IsSymlink = lst.Mode()&os.ModeSymlink != 0
	st, err := os.Stat(full)
	if err != nil {
		return f // dangling symlink
	}
	f.Exists = true
	f.IsDir = st.IsDir()
	f.Regular = st.Mode().IsRegular()
	if f.Regular {
		if b, err := os.ReadFile(full); err == nil {
			h := sha256.Sum256(b)
			f.Sha = hex.EncodeToString(h[:])
		}
	}
	// a symlink anywhere on the path also counts as "symlink involved"
	if !f.IsSymlink {
		cur := m.Root
		for _, part := range strings.Split(clean, "/") {
			cur = filepath.Join(cur, part)
			if l, err := os.Lstat(cur); err == nil && l.Mode()&os.ModeSymlink != 0 {
				f.IsSymlink = true
			}
		}
	}
	return f
}

func fileURL(abs string) string {
	u := url.URL{Scheme: "file", Path: abs}
	return u.String()
}

// resultRule judges a (path, summary) pair: class, cleaned path, trimmed summary.
func (m *Model) resultRule(rp, rs *string) (Outcome, string, MResult) {
	if rp == nil || rs == nil {
		return MustFail, "result_path and result_summary must come together", MResult{}
	}
	sum := strings.TrimSpace(*rs)
	class := MustOK
	why := ""
	if sum == "" {
		return MustFail, "blank summary", MResult{}
	}
	if strings.ContainsAny(sum, "\n\r") {
		return MustFail, "multi-line summary", MResult{}
	}
	if utf8.RuneCountInString(sum) > 120 {
		return MustFail, "summary longer than 120 characters", MResult{}
	}
	if len(sum) > 120 {
		class, why = Either, "summary ≤120 characters but >120 bytes"
	}
	p := *rp
	if p == "" {
		return Either, "empty path", MResult{}
	}
	if strings.HasPrefix(p, "/") {
		return MustFail, "absolute path", MResult{}
	}
	clean := path.Clean(p)
	if clean == ".." || strings.HasPrefix(clean, "../") {
		return MustFail, "path leaves the project", MResult{}
	}
	if clean == ".ergo" || strings.HasPrefix(clean, ".ergo/") {
		return MustFail, "path inside .ergo", MResult{}
	}
	ff := m.fileFact(clean)
	if !ff.Exists {
		return MustFail, "file does not exist", MResult{}
	}
	if ff.IsDir {
		return MustFail, "directory", MResult{}
	}
	if !ff.Regular {
		return MustFail, "not a regular file", MResult{}
	}
	if ff.IsSymlink {
		class, why = Either, "symlink involved (documentation silent)"
	}
	if p != clean {
		// a spelling that differs from its cleaned form: whether the raw or the
		// cleaned path is handed to the file system is not documented, and the
		// two differ when the raw spelling does not resolve (a detour through a
		// directory that does not exist, a trailing "/." on a file)
		if _, err := os.Stat(filepath.Join(m.Root) + "/" + p); err != nil {
			class, why = Either, "raw spelling does not resolve although the cleaned path does"
		}
	}
	if strings.HasPrefix(clean, "..") {
		// e.g. "..foo": a regular name that merely starts with dots
		class, why = Either, "name starting with .."
	}
	return class, why, MResult{Summary: sum, Path: clean, Sha: ff.Sha, FileURL: fileURL(filepath.Join(m.Root, clean))}
}

func blank(s string) bool { return strings.TrimSpace(s) == "" }

// stateClaim decides the (state, claimant) part of a set/new/claim request.
// cur may be a fresh todo task. Returns class, why and the acceptable
// (state, claimant) outcomes on success (first = documented).
type sc struct{ state, claim string }

func stateClaimRule(cur sc, st, cl *string, agent string) (Outcome, string, []sc) {
	if st != nil && !sixStates[*st] {
		return MustFail, "invalid state " + *st, nil
	}
	class := MustOK
	why := ""
	weaken := func(w string) {
		if class == MustOK {
			class, why = Either, w
		}
	}
	if st == nil {
		if cl == nil {
			return MustOK, "", []sc{cur}
		}
		if *cl == "" {
			// unclaim, state as it is. Where that would leave doing/error
			// without a claimant the request cannot be honoured as such.
			if cur.state == "doing" || cur.state == "error" {
				return Either, "unclaim of a " + cur.state + " task", []sc{{cur.state, ""}, {"todo", ""}}
			}
			return MustOK, "", []sc{{cur.state, ""}}
		}
		// a claim implies doing
		if cur.state == "doing" {
			if cur.claim == *cl {
				return Either, "re-claim by the same agent", []sc{{"doing", *cl}}
			}
			return Either, "claim of a task that is already doing", []sc{{"doing", *cl}}
		}
		if !legalMove[cur.state]["doing"] {
			return MustFail, "claim implies " + cur.state + "→doing, which is not a legal transition", nil
		}
		return MustOK, "", []sc{{"doing", *cl}}
	}
	to := *st
	if to == cur.state {
		weaken("no-op state change " + to + "→" + to)
	} else if !legalMove[cur.state][to] {
		return MustFail, "illegal transition " + cur.state + "→" + to, nil
	}
	switch to {
	case "todo", "done", "canceled":
		if cl != nil && *cl != "" {
			weaken("claim given together with a claim-clearing state")
		}
		return class, why, []sc{{to, ""}}
	case "doing", "error":
		who := cur.claim
		if cl != nil {
			if *cl == "" {
				return MustFail, "empty claim with state=" + to, nil
			}
			who = *cl
		} else if who == "" {
			if agent == "" {
				return MustFail, "state=" + to + " on an unclaimed task without --agent or claim", nil
			}
			who = agent
		}
		return class, why, []sc{{to, who}}
	default: // blocked
		who := cur.claim
		if cl != nil {
			who = *cl
		}
		return class, why, []sc{{to, who}}
	}
}

func combine(a Outcome, b Outcome) Outcome {
	if a == MustFail || b == MustFail {
		return MustFail
	}
	if a == Either || b == Either {
		return Either
	}
	return MustOK
}

const newID = "\x00NEW" // placeholder id for an item a command creates

// Predict judges command c against the current model state.
func (m *Model) Predict(c Cmd) Pred {
	if c.RawBad {
		prop := "C10"
		if c.Op == "plan" {
			prop = "C11"
		}
		return fail(prop, "stdin is not a single well-formed JSON object with known keys")
	}
	if m.NoStore {
		switch c.Op {
		case "init":
			n := m.Clone()
			n.NoStore = false
			return Pred{Class: MustOK, Prop: "C18", Alts: []*Model{n}}
		case "quickstart":
		default:
			return fail("C18", "no .ergo directory exists yet")
		}
	}
	switch c.Op {
	case "init", "compact", "where", "quickstart":
		p := Pred{Class: MustOK, Alts: []*Model{m.Clone()}, ChangesNothing: true}
		if c.Op == "compact" {
			for _, it := range m.Items {
				if len(it.Body) > 9*1024*1024 || len(it.Title) > 9*1024*1024 {
					// compaction may merge such text into an event that no longer
					// fits one line: it may then refuse (and change nothing)
					p.Class, p.Why = Either, "the store holds text close to the size one event line can hold"
				}
			}
		}
		return p
	case "list":
		n := 0
		if c.LAll && c.LReady {
			return fail("C10", "conflicting flags --ready --all")
		}
		if c.LEpics && (c.LAll || c.LReady || c.Epic != nil) {
			return fail("C10", "conflicting flags with --epics")
		}
		_ = n
		if c.Epic != nil {
			e := m.Items[m.Resolve(*c.Epic)]
			if e == nil || !e.IsEpic {
				return either("C10", "list --epic with an id that is not a live epic", m.Clone())
			}
		}
		return Pred{Class: MustOK, Alts: []*Model{m.Clone()}, ChangesNothing: true}
	case "show":
		id := m.Resolve(c.ID)
		if m.Items[id] == nil {
			if m.Pruned[id] {
				return fail("C09", "show of a pruned id")
			}
			return fail("C10", "show of an unknown id")
		}
		return Pred{Class: MustOK, Alts: []*Model{m.Clone()}, ChangesNothing: true}
	case "new_epic":
		return m.predictNew(c, true).weakenIfOversized(c)
	case "new_task":
		return m.predictNew(c, false).weakenIfWaitCycle().weakenIfOversized(c)
	case "set":
		return m.predictSet(c).weakenIfWaitCycle().weakenIfOversized(c)
	case "claim_id":
		id := m.Resolve(c.ID)
		if c.Agent == "" {
			return fail("C06", "claim without --agent")
		}
		it := m.Items[id]
		if it == nil {
			if m.Pruned[id] {
				return fail("C09", "claim of a pruned id")
			}
			return fail("C10", "claim of an unknown id")
		}
		if it.IsEpic {
			return fail("C06", "claim of an epic")
		}
		doing := "doing"
		cls, why, outs := stateClaimRule(sc{it.State, it.ClaimedBy}, &doing, &c.Agent, c.Agent)
		if cls == MustFail {
			return fail("C06", why)
		}
		p := Pred{Class: cls, Prop: "C06", Why: why, Touched: []string{id}}
		for _, o := range outs {
			n := m.Clone()
			n.Items[id].State, n.Items[id].ClaimedBy = o.state, o.claim
			p.Alts = append(p.Alts, n)
		}
		return p
	case "claim":
		if c.Agent == "" {
			return fail("C06", "claim without --agent")
		}
		scope := ""
		p := Pred{Class: MustOK, Prop: "C08"}
		if c.Epic != nil {
			scope = m.Resolve(*c.Epic)
			if e := m.Items[scope]; e == nil || !e.IsEpic {
				// not a live epic: documentation silent; stay permissive
				p.Class, p.Why = Either, "claim --epic with an id that is not a live epic"
			}
		}
		ok := m.OldestReady(scope)
		if len(ok) == 0 {
			p.NoReady = true
			p.Alts = []*Model{m.Clone()}
			return p
		}
		p.ClaimOK = ok
		for _, id := range keys(ok) {
			n := m.Clone()
			n.Items[id].State, n.Items[id].ClaimedBy = "doing", c.Agent
			p.Alts = append(p.Alts, n)
			p.Touched = append(p.Touched, id)
		}
		return p
	case "sequence":
		if len(c.IDs) < 2 {
			return fail("C10", "usage: fewer than two ids")
		}
		if m.Resolve(c.IDs[0]) == "rm" {
			return either("C10", "literal rm as first id")
		}
		n := m.Clone()
		class := MustOK
		why := ""
		for i := 0; i+1 < len(c.IDs); i++ {
			to, from := n.Resolve(c.IDs[i]), n.Resolve(c.IDs[i+1])
			for _, id := range []string{from, to} {
				if n.Items[id] == nil {
					if n.Pruned[id] {
						return fail("C09", "sequence with pruned id "+id)
					}
					return fail("C07", "sequence with unknown id "+id)
				}
			}
			if from == to {
				return fail("C07", "self dependency")
			}
			if n.Items[from].IsEpic != n.Items[to].IsEpic {
				return fail("C07", "dependency between a task and an epic")
			}
			if n.Items[from].Deps[to] {
				class, why = Either, "edge already present"
				continue
			}
			if n.reach(to, from, map[string]bool{}) {
				return fail("C07", "edge would close a cycle")
			}
			n.Items[from].Deps[to] = true
		}
		return Pred{Class: class, Prop: "C07", Why: why, Alts: []*Model{n}}.weakenIfWaitCycle()
	case "sequence_rm":
		if len(c.IDs) != 2 {
			return fail("C10", "usage: sequence rm needs exactly two ids")
		}
		to, from := m.Resolve(c.IDs[0]), m.Resolve(c.IDs[1])
		for _, id := range []string{from, to} {
			if m.Items[id] == nil {
				if m.Pruned[id] {
					return fail("C09", "sequence rm with pruned id "+id)
				}
				return fail("C07", "sequence rm with unknown id "+id)
			}
		}
		n := m.Clone()
		if !n.Items[from].Deps[to] {
			return either("C07", "removing an edge that is not there", n)
		}
		delete(n.Items[from].Deps, to)
		return Pred{Class: MustOK, Prop: "C07", Alts: []*Model{n}}
	case "prune":
		n := m.Clone()
		ids := m.PruneTargets()
		p := Pred{Class: MustOK, Prop: "C09", PrunedIDs: ids}
		if c.Yes {
			for _, id := range ids {
				n.prune(id)
			}
		} else {
			p.ChangesNothing = true
		}
		p.Alts = []*Model{n}
		return p
	case "plan":
		return m.predictPlan(c).weakenIfOversized(c)
	}
	harnessf("Predict: unknown op %q", c.Op)
	return Pred{}
}

func (m *Model) prune(id string) {
	delete(m.Items, id)
	m.Pruned[id] = true
	for _, it := range m.Items {
		delete(it.Deps, id)
	}
}

// PruneTargets: done/canceled tasks, then epics left without any child.
func (m *Model) PruneTargets() []string {
	gone := map[string]bool{}
	for _, t := range m.Tasks() {
		if finished(t.State) {
			gone[t.ID] = true
		}
	}
	for _, e := range m.Epics() {
		has := false
		for _, t := range m.Tasks() {
			if t.Epic == e.ID && !gone[t.ID] {
				has = true
			}
		}
		if !has {
			gone[e.ID] = true
		}
	}
	var ids []string
	for id := range gone {
		ids = append(ids, id)
	}
	sort.Strings(ids)
	return ids
}

func (m *Model) addItem(it *MItem) {
	it.Ord = len(m.Order)
	if it.Deps == nil {
		it.Deps = map[string]bool{}
	}
	m.Items[it.ID] = it
	m.Order = append(m.Order, it.ID)
}

// textRule: how title/body arrive, per input mode. Returns class + stored values.
func newTextRule(c Cmd) (Outcome, string, string, string) {
	title, body := "", ""
	switch c.Mode {
	case "flags":
		if c.Title == nil || blank(*c.Title) {
			return MustFail, "new without a title", "", ""
		}
		title = strings.TrimSpace(*c.Title)
		if c.Body != nil {
			body = *c.Body
		}
		return MustOK, "", title, body
	case "bodystdin":
		if c.Title == nil || blank(*c.Title) {
			return MustFail, "new --body-stdin without --title", "", ""
		}
		title = strings.TrimSpace(*c.Title)
		if c.Body != nil {
			body = *c.Body
		}
		if blank(body) {
			return Either, "blank body on stdin", title, body
		}
		return MustOK, "", title, body
	default:
		if c.Title == nil || blank(*c.Title) {
			return MustFail, "new without a title", "", ""
		}
		title = *c.Title
		if c.Body != nil {
			if blank(*c.Body) {
				// the manuals say "omit if empty" but do not promise a rejection
				return Either, "blank body", title, *c.Body
			}
			body = *c.Body
		}
		return MustOK, "", title, body
	}
}

func (m *Model) epicRule(ref *string, flagsMode bool) (Outcome, string, string, bool) {
	// returns class, why, epic id, provided
	if ref == nil {
		return MustOK, "", "", false
	}
	id := m.Resolve(*ref)
	if id == "" {
		if flagsMode {
			return MustOK, "", "", false // an empty flag value means "not given"
		}
		return MustOK, "", "", true
	}
	e := m.Items[id]
	if e == nil {
		if m.Pruned[id] {
			return MustFail, "epic id is pruned", "", true
		}
		return MustFail, "epic id is unknown", "", true
	}
	if !e.IsEpic {
		return MustFail, "epic id names a plain task", "", true
	}
	return MustOK, "", id, true
}

func (m *Model) predictNew(c Cmd, isEpic bool) Pred {
	cls, why, title, body := newTextRule(c)
	if cls == MustFail {
		return fail("C10", why)
	}
	flagsMode := c.Mode == "flags" || c.Mode == "bodystdin"
	if isEpic {
		if c.Mode == "" || c.Mode == "json" {
			if c.Epic != nil || c.State != nil || c.Claim != nil {
				return fail("C06", "epic with epic/state/claim field")
			}
			if c.RPath != nil || c.RSum != nil {
				return either("C20", "result fields on new epic")
			}
		}
		n := m.Clone()
		n.addItem(&MItem{ID: newID, IsEpic: true, Title: title, Body: body, State: "todo"})
		return Pred{Class: cls, Prop: "C10", Why: why, Alts: []*Model{n}, Creates: 1}
	}
	ecls, ewhy, epic, _ := m.epicRule(c.Epic, flagsMode)
	if ecls == MustFail {
		return fail("C14", ewhy)
	}
	st, cl := c.State, c.Claim
	if flagsMode {
		if st != nil && *st == "" {
			st = nil
		}
		if cl != nil && *cl == "" {
			cl = nil
		}
	}
	scls, swhy, outs := stateClaimRule(sc{"todo", ""}, st, cl, c.Agent)
	if scls == MustFail {
		return fail("C06", swhy)
	}
	cls = combine(cls, scls)
	if why == "" {
		why = swhy
	}
	var res *MResult
	if c.RPath != nil || c.RSum != nil {
		if flagsMode {
			// new task has no result flags
			return either("C20", "result flags on new task")
		}
		rcls, rwhy, r := m.resultRule(c.RPath, c.RSum)
		if rcls == MustFail {
			return fail("C20", rwhy)
		}
		cls = combine(cls, rcls)
		if why == "" {
			why = rwhy
		}
		res = &r
	}
	p := Pred{Class: cls, Prop: "C06", Why: why, Creates: 1}
	for _, o := range outs {
		n := m.Clone()
		it := &MItem{ID: newID, Title: title, Body: body, Epic: epic, State: o.state, ClaimedBy: o.claim}
		if res != nil {
			it.Results = []MResult{*res}
		}
		n.addItem(it)
		p.Alts = append(p.Alts, n)
	}
	return p
}

func (m *Model) predictSet(c Cmd) Pred {
	id := m.Resolve(c.ID)
	flagsMode := c.Mode == "flags" || c.Mode == "bodystdin"
	title, body, epicRef, st, cl, rp, rs := c.Title, c.Body, c.Epic, c.State, c.Claim, c.RPath, c.RSum
	class := MustOK
	why := ""
	weaken := func(o Outcome, w string) {
		class = combine(class, o)
		if why == "" {
			why = w
		}
	}
	if flagsMode {
		// an empty flag value is indistinguishable from an absent flag
		if title != nil && blank(*title) {
			title = nil
			weaken(Either, "blank --title")
		}
		for _, pp := range []**string{&epicRef, &st, &cl, &rp, &rs} {
			if *pp != nil && **pp == "" {
				*pp = nil
			}
		}
		if c.Mode == "flags" && body != nil && *body == "" {
			body = nil
		}
	}
	if c.Mode == "bodystdin" {
		if body == nil || blank(*body) {
			return fail("C10", "set --body-stdin with a blank body")
		}
	} else if c.Mode == "" || c.Mode == "json" {
		if title != nil && blank(*title) {
			return fail("C10", "blank title")
		}
		if body != nil && blank(*body) {
			weaken(Either, "blank body")
		}
	}
	if (rp == nil) != (rs == nil) {
		return fail("C20", "result_path and result_summary must come together")
	}
	if title == nil && body == nil && epicRef == nil && st == nil && cl == nil && rp == nil {
		return either("C10", "no fields to update", m.Clone())
	}
	it := m.Items[id]
	if it == nil {
		if m.Pruned[id] {
			return fail("C09", "set on a pruned id")
		}
		return fail("C10", "set on an unknown id")
	}
	if it.IsEpic {
		if st != nil || cl != nil {
			return fail("C06", "state/claim on an epic")
		}
		if epicRef != nil {
			return fail("C14", "epic assigned to an epic")
		}
		if rp != nil {
			return fail("C20", "result attached to an epic")
		}
		n := m.Clone()
		if title != nil {
			n.Items[id].Title = strings.TrimSpace(*title)
		}
		if body != nil {
			n.Items[id].Body = *body
		}
		return Pred{Class: class, Prop: "C10", Why: why, Alts: []*Model{n}, Touched: []string{id}}
	}
	ecls, ewhy, epic, epicGiven := m.epicRule(epicRef, flagsMode)
	if ecls == MustFail {
		return fail("C14", ewhy)
	}
	scls, swhy, outs := stateClaimRule(sc{it.State, it.ClaimedBy}, st, cl, c.Agent)
	if scls == MustFail {
		return fail("C06", swhy)
	}
	weaken(scls, swhy)
	var res *MResult
	if rp != nil {
		rcls, rwhy, r := m.resultRule(rp, rs)
		if rcls == MustFail {
			return fail("C20", rwhy)
		}
		weaken(rcls, rwhy)
		res = &r
	}
	p := Pred{Class: class, Prop: "C06", Why: why, Touched: []string{id}}
	for _, o := range outs {
		n := m.Clone()
		ni := n.Items[id]
		if title != nil {
			ni.Title = strings.TrimSpace(*title)
		}
		if body != nil {
			ni.Body = *body
		}
		if epicGiven {
			ni.Epic = epic
		}
		ni.State, ni.ClaimedBy = o.state, o.claim
		if res != nil {
			ni.Results = append([]MResult{*res}, ni.Results...)
		}
		p.Alts = append(p.Alts, n)
	}
	return p
}

// planValid applies the documented validation rules of `plan`.
func planValid(d *PlanDoc) (bool, string) {
	if d == nil {
		return false, "no document"
	}
	if d.Title == nil || blank(*d.Title) {
		return false, "missing/blank epic title"
	}
	if d.Body != nil && blank(*d.Body) {
		return false, "blank epic body"
	}
	if len(d.Tasks) == 0 {
		return false, "empty task list"
	}
	idx := map[string]int{}
	for i, t := range d.Tasks {
		if t.Title == nil || blank(*t.Title) {
			return false, fmt.Sprintf("tasks[%d] missing/blank title", i)
		}
		if _, dup := idx[*t.Title]; dup {
			return false, fmt.Sprintf("duplicate title %q", *t.Title)
		}
		idx[*t.Title] = i
		if t.Body != nil && blank(*t.Body) {
			return false, fmt.Sprintf("tasks[%d] blank body", i)
		}
	}
	adj := map[int][]int{}
	for i, t := range d.Tasks {
		for _, a := range t.After {
			if blank(a) {
				return false, "blank after entry"
			}
			j, ok := idx[a]
			if !ok {
				return false, fmt.Sprintf("dangling after %q", a)
			}
			if j == i {
				return false, "self reference in after"
			}
			adj[i] = append(adj[i], j)
		}
	}
	color := map[int]int{}
	var visit func(int) bool
	visit = func(i int) bool {
		if color[i] == 1 {
			return true
		}
		if color[i] == 2 {
			return false
		}
		color[i] = 1
		for _, j := range adj[i] {
			if visit(j) {
				return true
			}
		}
		color[i] = 2
		return false
	}
	for i := range d.Tasks {
		if visit(i) {
			return false, "cycle in after"
		}
	}
	return true, ""
}

func planPlaceholder(i int) string { return fmt.Sprintf("%s%d", newID, i) }

func (m *Model) predictPlan(c Cmd) Pred {
	ok, why := planValid(c.Plan)
	if !ok {
		return fail("C11", why)
	}
	d := c.Plan
	n := m.Clone()
	body := ""
	if d.Body != nil {
		body = *d.Body
	}
	n.addItem(&MItem{ID: planPlaceholder(0), IsEpic: true, Title: *d.Title, Body: body, State: "todo"})
	idx := map[string]int{}
	for i, t := range d.Tasks {
		idx[*t.Title] = i
		b := ""
		if t.Body != nil {
			b = *t.Body
		}
		n.addItem(&MItem{ID: planPlaceholder(i + 1), Title: *t.Title, Body: b, Epic: planPlaceholder(0), State: "todo"})
	}
	for i, t := range d.Tasks {
		for _, a := range t.After {
			n.Items[planPlaceholder(i+1)].Deps[planPlaceholder(idx[a]+1)] = true
		}
	}
	return Pred{Class: MustOK, Prop: "C11", Alts: []*Model{n}, Creates: 1 + len(d.Tasks)}
}

// Rename replaces a placeholder id by the real one everywhere.
func (m *Model) Rename(old, new string) {
	it := m.Items[old]
	if it == nil {
		return
	}
	delete(m.Items, old)
	it.ID = new
	m.Items[new] = it
	for i, id := range m.Order {
		if id == old {
			m.Order[i] = new
		}
	}
	for _, o := range m.Items {
		if o.Epic == old {
			o.Epic = new
		}
		if o.Deps[old] {
			delete(o.Deps, old)
			o.Deps[new] = true
		}
	}
}

// StateKey is a canonical serialisation of what the model holds (for counting
// distinct states; ids and times are abstracted to creation ordinals).
func (m *Model) StateKey() string {
	ord := map[string]int{}
	for i, id := range m.Order {
		ord[id] = i
	}
	var parts []string
	for _, id := range m.LiveIDs() {
		it := m.Items[id]
		var deps []int
		for d := range it.Deps {
			deps = append(deps, ord[d])
		}
		sort.Ints(deps)
		e := -1
		if it.Epic != "" {
			if v, ok := ord[it.Epic]; ok {
				e = v
			} else {
				e = -2
			}
		}
		k := "T"
		if it.IsEpic {
			k = "E"
		}
		claimed := "-"
		if it.ClaimedBy != "" {
			claimed = "c"
		}
		parts = append(parts, fmt.Sprintf("%d%s:%s%s:e%d:d%v:r%d", ord[id], k, it.State, claimed, e, deps, len(it.Results)))
	}
	sort.Strings(parts)
	return strings.Join(parts, "|") + fmt.Sprintf("|p%d", len(m.Pruned))
}

// WaitCycle: does the structural waits-for relation (own dependencies plus
// those inherited through the epic's dependencies) contain a cycle? C15 says
// ergo never lets callers build one; which request gets refused is not
// specified, so a request whose documented effect would close such a cycle may
// be refused or (if accepted) is caught by C15's progress oracles.
func (m *Model) WaitCycle() bool {
	deps := map[string][]string{}
	for _, t := range m.Tasks() {
		n := "t:" + t.ID
		for d := range t.Deps {
			if o := m.Items[d]; o != nil && !o.IsEpic {
				deps[n] = append(deps[n], "t:"+d)
			}
		}
		if e := m.Items[t.Epic]; t.Epic != "" && e != nil && e.IsEpic {
			deps[n] = append(deps[n], "in:"+t.Epic)
			deps["out:"+t.Epic] = append(deps["out:"+t.Epic], n)
		}
	}
	for _, e := range m.Epics() {
		for d := range e.Deps {
			if o := m.Items[d]; o != nil && o.IsEpic {
				deps["in:"+e.ID] = append(deps["in:"+e.ID], "out:"+d)
			}
		}
	}
	return findCycle(deps) != nil
}

// weakenIfOversized: text near or beyond what one event line can hold (10 MiB
// encoded) may be refused - "for any length the log format admits" - but if it
// is accepted it must come back, and the store must stay readable.
func (p Pred) weakenIfOversized(c Cmd) Pred {
	n := 0
	fields := []*string{c.Title, c.Body}
	if c.Plan != nil {
		fields = append(fields, c.Plan.Title, c.Plan.Body)
		for _, t := range c.Plan.Tasks {
			fields = append(fields, t.Title, t.Body)
		}
	}
	for _, s := range fields {
		if s != nil && len(*s) > n {
			n = len(*s)
		}
	}
	if n > 9*1024*1024 && p.Class == MustOK {
		// (compaction of a store holding such text may be refused as well)
		p.Class = Either
		p.Why = "text close to or beyond the size one event line can hold"
	}
	return p
}

func (p Pred) weakenIfWaitCycle() Pred {
	if p.Class == MustFail {
		return p
	}
	for _, a := range p.Alts {
		if a.WaitCycle() {
			p.Class = Either
			if p.Why == "" {
				p.Why = "the request would close a cycle in the effective waits-for relation (through epic dependencies)"
			}
			return p
		}
	}
	return p
}
