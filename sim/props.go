package main

// Per-property exploration profiles: how scenarios are generated for each
// property. The oracles live in run.go/obs.go (sequential), conc.go
// (concurrent batches) and crash.go (crash sweeps).

import (
	"fmt"
	"strings"
)

// thoroughTier is set by the driver for --tier thorough: more random schedules per
// sample, every torn offset for short lines, and the >10 MB line in C12.
var thoroughTier bool

type RunReport struct {
	Sc          *Scenario
	V           []Violation
	Count       Counters
	Shapes      map[string]bool
	States      map[string]bool
	Cmds        int
	Effects     int
	Faults      int
	SimNs       int64
	Digest      string
	Ilv         string
	NonTrivial  bool
	Harness     string // non-empty: harness trouble (exit 2)
	Execs       int    // executions (scenario runs incl. sweep members)
	Extra       map[string]int
	IlvSet      map[string]bool
	PerViolScen [][]Step // when set: V[i] is demonstrated by Sc with Steps = PerViolScen[i]
}

// seqProfile tunes the generator for a property.
func seqProfile(prop string, g *Gen, cfg *Config, rng *SplitMix) (steps int) {
	steps = 12 + rng.Intn(18)
	clocks := []string{"fine", "fine", "coarse", "second", "leap", "back"}
	cfg.Clock = clocks[rng.Intn(len(clocks))]
	if rng.Chance(1, 3) {
		// text with edge whitespace, quotes, control and multi-byte characters
		// is not C17's private matter: it travels through every command
		g.Text = "unicode"
	}
	switch prop {
	case "C06":
		g.W["set"] = 40
		g.W["new_task"] = 16
		g.W["claim_id"] = 10
		g.W["claim"] = 8
		g.W["plan"], g.W["file"], g.W["sequence"], g.W["sequence_rm"] = 1, 1, 2, 1
		g.BadBias = 8
		g.MixPct = 6
		g.ReclaimPct = 15
	case "C07":
		g.W["sequence"] = 40
		g.W["sequence_rm"] = 14
		g.W["plan"] = 8
		g.W["prune"] = 6
		g.W["new_task"] = 14
		g.W["new_epic"] = 8
		g.W["set"] = 10
		g.BadBias = 15
		g.AimPct = 12
	case "C08", "C15":
		g.AimPct = 10
		g.W["sequence"] = 25
		g.W["new_epic"] = 9
		g.W["plan"] = 6
		g.W["claim"] = 14
		g.W["set"] = 25
		g.W["prune"] = 5
		cfg.Clock = []string{"fine", "coarse", "second", "second", "back"}[rng.Intn(5)]
		steps = 18 + rng.Intn(22)
	case "C09":
		g.ForcePct = 25
		g.W["new_task"] = 22
		g.W["prune"] = 10
		g.W["prune_dry"] = 6
		g.W["set"] = 30
		g.W["compact"] = 6
		g.W["sequence"] = 12
		g.W["sequence_rm"] = 7
		g.BadBias = 25
		steps = 18 + rng.Intn(20)
	case "C10":
		g.RawPct = 15
		g.BadBias = 45
		g.W["sequence"] = 14
		g.AimPct = 10
		g.IOPct = 12
		if rng.Chance(1, 3) {
			g.Text = "unicode" // (on top of the general 1 in 3: about half of C10's runs)
		}
	case "C11":
		g.RawPct = 25
		g.W["plan"] = 30
		g.Text = "unicode"
		g.BadBias = 25
		g.IOPct = 6
	case "C14":
		g.W["compact"] = 10
		g.W["new_task"] = 25
		g.W["new_epic"] = 10
		g.W["set"] = 30
		g.W["prune"] = 10
		g.W["plan"] = 5
		g.BadBias = 30
		g.MixPct = 10
	case "C16":
		g.RawPct = 10
		g.W["sequence"] = 20
		g.W["plan"] = 8
		g.ForcePct = 8
		g.Human = 0
		g.BadBias = 20
		g.ReclaimPct = 35
		g.W["claim_id"] = 8
		cfg.Clock = []string{"fine", "coarse", "second", "leap", "back", "back"}[rng.Intn(6)]
	case "C17":
		g.RawPct = 5
		g.Text = "unicode"
		if rng.Chance(1, 3) {
			g.Text = "huge"
		}
		g.W["new_task"], g.W["new_epic"], g.W["set"], g.W["plan"] = 25, 10, 30, 10
		g.W["compact"] = 6
		g.BadBias = 3
		g.EditAgainPct = 30
		cfg.Clock = []string{"fine", "coarse", "second", "leap", "back", "back"}[rng.Intn(6)]
		cfg.StdinChunk = rng.Chance(1, 2)
		if rng.Chance(1, 2) {
			cfg.ShortWriteDen = 2
			cfg.ShortReadDen = 3
		}
		steps = 8 + rng.Intn(10)
	case "C20":
		cfg.Clock = []string{"fine", "coarse", "second", "back", "back"}[rng.Intn(5)]
		g.Links = true
		g.RepeatPct = 35
		g.W["file"] = 18
		g.W["set"] = 35
		g.W["compact"] = 6
		g.W["prune"] = 4
		g.BadBias = 20
		if rng.Chance(1, 2) {
			cfg.ShortReadDen = 3
		}
	case "C05":
		g.RepeatPct = 25
		g.EditAgainPct = 25
		g.W["compact"] = 12
		g.Text = "unicode"
	case "C12":
		g.W["list"], g.W["show"], g.W["where"], g.W["prune_dry"] = 10, 10, 3, 5
		g.Human = 40
	}
	return
}

func newScenario(prop, kind string, seed uint64) (*Scenario, *SplitMix) {
	rng := NewSplitMix(seed)
	sc := &Scenario{Prop: prop, Kind: kind, Seed: seed}
	sc.Config.ClockSeed = rng.Uint64()
	sc.Config.RandSeed = rng.Uint64()
	sc.Config.AmbSeed = rng.Uint64()
	sc.Config.Clock = "fine"
	return sc, rng
}

// runSeqGenerated: generate-and-run a sequential scenario for prop.
// hung turns the watchdog's verdict on a simulated process (it burns CPU and
// never reaches a system call) into a violation of "every command terminates"
// that carries the scenario so far, so that it can be replayed.
func (r *Run) hung(rep **RunReport, x any) {
	e, ok := x.(WatchdogSpin)
	if !ok {
		panic(x)
	}
	if e.Blocked && r.Sc.Prop == "C20" {
		// in a C20 history the file being opened is the result path: something
		// that is not a regular file was taken for one
		r.viol("C20", "accepted-invalid", "hang-on-special-file", "ergo %v sat inside open(2) for a whole watchdog period: a FIFO or device was accepted as a result file", e.Argv)
	} else if e.Blocked {
		r.viol("C12", "non-termination", "hang", "ergo %v sat inside open(2) for a whole watchdog period (a FIFO or device taken for a file)", e.Argv)
	} else {
		r.viol("C12", "non-termination", "hang", "ergo %v burned %.0f s of CPU without reaching a system call", e.Argv, spinCPU)
	}
	*rep = r.Report()
}

func runSeqGenerated(bin, prop string, seed uint64) (rep *RunReport) {
	sc, rng := newScenario(prop, "seq", seed)
	g := NewGen(rng.Uint64())
	n := seqProfile(prop, g, &sc.Config, rng)
	r := NewRun(bin, sc)
	defer r.Close()
	defer func() {
		if x := recover(); x != nil {
			r.hung(&rep, x)
		}
	}()
	r.InitStore()
	if prop == "C20" || prop == "C05" && rng.Chance(1, 2) {
		// the agent's work products exist before they are attached
		for _, f := range goodFiles {
			st := Step{File: &FileOp{Path: f, Kind: "file", Content: "result " + f + " with enough content to be longer than any link target\n"}}
			sc.Steps = append(sc.Steps, st)
			r.ExecStep(st)
		}
		if prop == "C20" {
			// things that exist and are neither regular files nor directories
			for _, st := range []Step{{File: &FileOp{Path: "out/pipe", Kind: "fifo"}}, {File: &FileOp{Path: "lnk/devnull", Kind: "symlink", Target: "/dev/null"}}} {
				sc.Steps = append(sc.Steps, st)
				r.ExecStep(st)
			}
			for _, l := range [][2]string{{"lnk/tofile", "../r0.txt"}, {"lnk/todir", "../out"}, {"lnk/dangling", "nowhere"}, {"lnk/outside", "/etc/hostname"}} {
				st := Step{File: &FileOp{Path: l[0], Kind: "symlink", Target: l[1]}}
				sc.Steps = append(sc.Steps, st)
				r.ExecStep(st)
			}
		}
	}
	if (prop == "C15" || prop == "C08") && rng.Chance(2, 3) || prop == "C10" && rng.Chance(1, 3) {
		steps := g.twoLevelPrelude()
		if rng.Chance(1, 3) {
			steps = g.cycleMotif(len(r.M.Order))
		}
		for _, st := range steps {
			sc.Steps = append(sc.Steps, st)
			r.ExecStep(st)
		}
	}
	if prop == "C17" && rng.Chance(1, 30) {
		// the size limit of one event line from below: an item created without
		// a body gets one that just fits its own event; compaction then folds
		// it into the creation event, which is a little longer
		base := len(r.M.Order)
		ref := fmt.Sprintf("#%d", base)
		n := 10*1024*1024 - 600 + rng.Intn(560)
		for _, st := range []Step{
			{Cmd: &Cmd{Op: "new_task", Mode: "json", Title: sp("near the limit " + g.text("title"))}},
			{Cmd: &Cmd{Op: "set", Mode: g.oneOf("json", "bodystdin"), ID: ref, Body: sp("oversized " + strings.Repeat("x", n))}},
			{Cmd: &Cmd{Op: "show", ID: ref}}, {Cmd: &Cmd{Op: "compact"}}, {Cmd: &Cmd{Op: "show", ID: ref}}, {Cmd: &Cmd{Op: "list", LAll: true}},
		} {
			sc.Steps = append(sc.Steps, st)
			r.ExecStep(st)
		}
	}
	if (prop == "C10" || prop == "C07") && rng.Chance(1, 10) {
		// wide inputs: a plan of 40 tasks, then chains over all of them - one
		// valid, one that fails at its very end. Limits and batching inside
		// ergo (edges per append, bytes per write) must not show.
		doc := &PlanDoc{Title: sp("wide " + g.text("title"))}
		for i := 0; i < 40; i++ {
			doc.Tasks = append(doc.Tasks, PlanTask{Title: sp(fmt.Sprintf("w%02d %s", i, g.text("title")))})
		}
		base := len(r.M.Order)
		var ids []string
		for i := 0; i < 40; i++ {
			ids = append(ids, fmt.Sprintf("#%d", base+1+i))
		}
		bad := append(append([]string{}, ids...), g.oneOf("ZZZZZZ", ids[0], "#999"))
		for _, st := range []Step{{Cmd: &Cmd{Op: "plan", Plan: doc}}, {Cmd: &Cmd{Op: "sequence", IDs: bad}}, {Cmd: &Cmd{Op: "sequence", IDs: ids}}, {Cmd: &Cmd{Op: "sequence", IDs: append([]string{ids[39]}, ids[:5]...)}}} {
			sc.Steps = append(sc.Steps, st)
			r.ExecStep(st)
		}
	}
	mergedCycle := false
	tornPlan := prop == "C11" && rng.Chance(1, 4)
	tornDry := prop == "C09" && rng.Chance(1, 3)
	tornAt := -1
	if prop == "C08" && rng.Chance(1, 4) {
		// a claim whose append was torn after its first line: the task is todo
		// and has a claimant (a combination no command produces, within the
		// property's quantifier all the same)
		tornAt = rng.Intn(n)
	}
	// a write cut exactly one byte short: the last event is whole, only its
	// newline is missing. Readers show it; whatever is shown must stay
	unterminateAt := -1
	if rng.Chance(1, 4) || prop == "C20" && rng.Chance(1, 3) {
		unterminateAt = 1 + rng.Intn(n)
	}
	for i := 0; i < n; i++ {
		if unterminateAt >= 0 && i >= unterminateAt {
			unterminateAt = -1
			if ts := r.M.Tasks(); prop == "C20" && len(ts) > 0 {
				// the event that loses its newline is a result, half of the
				// time one with a long path (a line longer than a tail scan's
				// buffer)
				c := &Cmd{Op: "set", Mode: "json", ID: ts[rng.Intn(len(ts))].ID, RSum: sp(g.text("title"))}
				c.RPath = sp(goodFiles[rng.Intn(len(goodFiles))])
				if rng.Chance(1, 2) {
					c.RPath = sp(goodFiles[len(goodFiles)-1])
				}
				rs := Step{Cmd: c}
				sc.Steps = append(sc.Steps, rs)
				r.ExecStep(rs)
			}
			ds := Step{Disk: &DiskOp{Kind: "tail_unterminated"}}
			sc.Steps = append(sc.Steps, ds)
			r.ExecStep(ds)
		}
		st := g.Next(r.M)
		if i == tornAt {
			st = Step{Disk: &DiskOp{Kind: "tail_partial_batch"}}
		}
		if tornDry && st.Cmd != nil && st.Cmd.Op == "prune" && !st.Cmd.Yes && i > 0 {
			// the dry run meets the torn tail of a killed append: "writes
			// nothing" includes not tidying that up
			tornDry = false
			ds := Step{Disk: &DiskOp{Kind: "tail_fragment", Arg: `{"type":"state","ts":"2030-01-01T00:00:00Z","data":{"id":"QQQQQQ","sta`}}
			sc.Steps = append(sc.Steps, ds)
			r.ExecStep(ds)
		}
		if prop == "C10" && st.IO != nil && st.IO.Call == "write" && i > 0 && rng.Chance(1, 3) {
			// the failing write meets a log whose tail was torn by an earlier
			// crash: the repair of the tail and the roll-back of the failed
			// append must not get in each other's way
			ds := Step{Disk: &DiskOp{Kind: "tail_fragment", Arg: `{"type":"title","ts":"2030-01-01T00:00:00Z","data":{"id":"QQQQQQ","title":"a title that was being written when the process died, long enough to matter`}}
			sc.Steps = append(sc.Steps, ds)
			r.ExecStep(ds)
		}
		if tornPlan && st.Cmd != nil && st.Cmd.Op == "plan" && i > 0 {
			// the store plan is applied to carries the torn tail of a killed
			// append (a pre-existing store like any other)
			tornPlan = false
			ds := Step{Disk: &DiskOp{Kind: "tail_fragment", Arg: `{"type":"new_task","ts":"2030-01-01T00:00:00Z","data":{"id":"QQQQQQ","uu`}}
			sc.Steps = append(sc.Steps, ds)
			r.ExecStep(ds)
		}
		if prop == "C09" && len(r.M.Pruned) > 0 && rng.Chance(1, 8) {
			st = Step{Disk: &DiskOp{Kind: "merge_pruned", N: rng.Intn(64), Pos: rng.Intn(1 << 20)}}
		}
		if prop == "C14" && !mergedCycle && rng.Chance(1, 10) {
			// motif: a task moves between epics, its old epic empties and is
			// pruned, the log is compacted
			mergedCycle = true
			base := len(r.M.Order)
			e1, e2, t := fmt.Sprintf("#%d", base), fmt.Sprintf("#%d", base+1), fmt.Sprintf("#%d", base+2)
			motif := []Step{
				{Cmd: &Cmd{Op: "new_epic", Title: sp("old home")}}, {Cmd: &Cmd{Op: "new_epic", Title: sp("new home")}},
				{Cmd: &Cmd{Op: "new_task", Title: sp("the mover"), Epic: &e1}}, {Cmd: &Cmd{Op: "set", ID: t, Epic: &e2}},
				{Cmd: &Cmd{Op: "prune", Yes: true}}, {Cmd: &Cmd{Op: "compact"}}, {Cmd: &Cmd{Op: "list", LAll: true}},
			}
			for _, s := range motif {
				sc.Steps = append(sc.Steps, s)
				r.ExecStep(s)
			}
			continue
		}
		if prop == "C09" && !mergedCycle && i > n/2 && rng.Chance(1, 6) {
			// a merge-made dependency cycle among an epic's open children, then
			// prune (dry and applied): the epic still has children
			mergedCycle = true
			for _, s := range []Step{{Disk: &DiskOp{Kind: "merge_cycle"}}, {Cmd: &Cmd{Op: "prune"}}, {Cmd: &Cmd{Op: "prune", Yes: true}}} {
				sc.Steps = append(sc.Steps, s)
				r.ExecStep(s)
			}
			continue
		}
		sc.Steps = append(sc.Steps, st)
		r.ExecStep(st)
	}
	r.Finish()
	return r.Report()
}

// ExecStep executes one recorded step.
func (r *Run) ExecStep(st Step) {
	switch {
	case st.Fork != "":
		r.DoFork(st)
	case st.File != nil:
		r.DoFile(st.File)
	case st.Disk != nil && st.Disk.Kind == "corrupt":
		r.DoCorrupt(st.Disk)
	case st.Disk != nil:
		r.DoDisk(st.Disk)
		if st.Disk.Kind == "tail_torn" || st.Disk.Kind == "legacy_task" || st.Disk.Kind == "inflate" || st.Disk.Kind == "tail_partial_batch" {
			r.resyncQuiet()
		}
	case st.Batch != nil:
		r.DoBatch(st.Batch)
	case st.Cmd != nil && st.Crash != nil:
		r.DoCrash(*st.Cmd, *st.Crash)
	case st.Cmd != nil:
		if st.ForceID != "" {
			if id := r.M.Resolve(st.ForceID); idRe.MatchString(id) && !strings.ContainsAny(id, "0189") {
				r.W.Rand.ForceID(id)
				if r.M.Pruned[id] {
					r.W.Count.Inc("fault.id_collide_pruned")
				} else {
					r.W.Count.Inc("fault.id_collide_live")
				}
			}
		}
		r.pendingIO = st.IO
		r.DoCmd(*st.Cmd)
		r.W.Rand.forced4 = nil // a forced draw is meant for this command only
	}
}

func (r *Run) resyncQuiet() {
	o := r.observe()
	r.M = ModelFromObs(o, r.M)
}

// Finish: end-of-run checks (bounded-liveness drain for C15 lives in drain.go).
func (r *Run) Finish() {
	if r.Sc.Prop == "C15" || r.Sc.Prop == "C08" {
		r.Drain()
	}
}

func (r *Run) Report() *RunReport {
	rep := &RunReport{Sc: r.Sc, V: r.VL.V, Count: r.W.Count, Shapes: r.Shapes, States: r.States, Cmds: r.Cmds, Effects: r.Effects, Faults: r.Faults,
		SimNs: r.W.Clock.Advance, Digest: r.W.Digest(), Ilv: fmt.Sprintf("%x", r.W.IlvHash.Sum(nil)[:8]), Execs: 1}
	rep.Count["clock.ties"] += r.W.Clock.Ties
	rep.Count["clock.backs"] += r.W.Clock.Backs
	rep.Count["clock.leaps"] += r.W.Clock.Leaps
	rep.Count["clock.reads"] += r.W.Clock.Handed
	rep.Count["rand.requests"] += r.W.Rand.Requests
	rep.Count["rand.forced"] += r.W.Rand.Forced
	rep.Count["model.resyncs"] += r.Resyncs
	rep.NonTrivial = r.Effects > 0
	if r.Sc.Prop == "C10" {
		for i := range rep.V {
			switch rep.V[i].Oracle {
			case "lock-busy-but-wrote", "failed-but-wrote":
				rep.V[i].Prop = "C10"
			}
		}
	}
	if r.Sc.Prop == "C17" {
		// text that was accepted and cannot be read back - because no read works
		// any more - did not "come back exactly as it went in"
		for i := range rep.V {
			if rep.V[i].Oracle == "read-failed" && rep.V[i].Prop != "C17" {
				rep.V[i].Sig = "as-" + rep.V[i].Prop + ":" + rep.V[i].Sig
				rep.V[i].Prop = "C17"
			}
		}
	}
	if r.Sc.Prop == "C18" {
		// under layout/spelling variation the refinement oracle IS the property
		for i := range rep.V {
			switch rep.V[i].Oracle {
			case "post-state", "rejected-valid", "failed-but-changed", "failed-but-wrote", "read-failed", "changed-by-init", "where", "reply-vs-read", "history-prefix", "accepted-invalid":
				if rep.V[i].Prop != "C18" {
					rep.V[i].Sig = "as-" + rep.V[i].Prop + ":" + rep.V[i].Sig
					rep.V[i].Prop = "C18"
				}
			}
		}
	}
	return rep
}

// ReplayScenario runs a recorded scenario (no generator involved).
func ReplayScenario(bin string, sc *Scenario) (rep *RunReport) {
	r := NewRun(bin, sc)
	defer r.Close()
	defer func() {
		if x := recover(); x != nil {
			r.hung(&rep, x)
		}
	}()
	r.InitStore()
	for _, st := range sc.Steps {
		r.ExecStep(st)
	}
	r.Finish()
	return r.Report()
}

var commonAssume = []string{
	"crash = process death (SIGKILL): completed write(2) calls survive; power loss is not modelled",
	"a system call on .ergo is atomic in the simulation; partial visibility is approximated by short writes",
	"the reference model is an interpretation of help.txt, quickstart.txt, docs/spec.md and the property statement; where they are silent both outcomes are accepted",
	"file I/O that bypasses package syscall's wrappers would be invisible to the interposer (the shipped code has none)",
}

func seqMode(prop string, quick, deep int) Mode {
	return Mode{Name: "seq", Quick: quick, Deep: deep,
		Run:    func(bin string, seed uint64) *RunReport { return runSeqGenerated(bin, prop, seed) },
		Replay: ReplayScenario}
}

func planFor(prop string) *PropPlan {
	p := &PropPlan{ID: prop, Level: "exploration", Assume: commonAssume}
	switch prop {
	case "C01", "C02", "C13":
		quick := 32
		if prop == "C02" {
			quick = 48 // nine conflict families: each should get several samples
		}
		if prop == "C13" {
			quick = 110 // reader samples are cheap; writer kind x layout x reader kind x text class needs more of them
		}
		p.Modes = []Mode{{Name: "conc", Quick: quick, Deep: 800,
			Run:    func(bin string, seed uint64) *RunReport { return runConcSample(bin, prop, seed, thoroughTier) },
			Replay: ReplayConc}}
		p.Rule = "per sample: a seeded pre-state (sequential history) and one batch of 2-6 concurrent ergo processes; from the same snapshot the batch is executed under seeded random and sticky schedules and under EVERY single-preemption schedule of the designated processes (process A runs to its k-th .ergo system call, everybody else runs to completion, A resumes; k = 0..K); evaluations = batch executions; a sample is non-trivial when at least one batch ran; distinct = distinct trace digests of samples; distinct_interleavings counts distinct context-switch sequences (process role x call class)"
	case "C12":
		p.Modes = []Mode{seqMode(prop, 200, 6000), {Name: "corrupt", Quick: 120, Deep: 4000,
			Run:    func(bin string, seed uint64) *RunReport { return runCorruptGenerated(bin, seed, thoroughTier) },
			Replay: ReplayScenario}}
		p.Rule = "(a) seeded valid histories whose log is then damaged by one or two of 34 storage-fault kinds (bit flip, truncation anywhere, duplicated/swapped/dropped lines, conflict markers, junk, unknown event types, wrong field types, bad timestamps, duplicate creates, binary, NULs, BOM, CRLF, scalars, deep nesting, 64 KB and >10 MB lines, invalid UTF-8, semantic damage such as self/cyclic links) at a seeded position; against each damaged log 26 commands (all reads in JSON and human form, every mutation) run in the simulator: termination (watchdog), exit 0/1, no panic/signal, stderr explains, file:line named for non-JSON lines, reads byte-identical when repeated in a second process and free of mutating system calls, successful mutations only extend the event list; (b) seeded sequential histories with read purity, repeat-read determinism and history-prefix checks on valid logs; non-trivial = at least one command judged on a damaged log or one mutation in effect; distinct = distinct trace digests"
	case "C18":
		p.Modes = []Mode{{Name: "layout", Quick: 300, Deep: 9000,
			Run:    func(bin string, seed uint64) *RunReport { return runLayoutGenerated(bin, seed) },
			Replay: ReplayScenario},
			{Name: "conc", Quick: 24, Deep: 400,
				Run:    func(bin string, seed uint64) *RunReport { return runConcSample(bin, prop, seed, thoroughTier) },
				Replay: ReplayConc}}
		p.Rule = "seeded sequential histories in which every command draws a fresh start directory (depth 0-3, names with spaces) and --dir spelling (none, absolute, relative, the .ergo directory itself relative or absolute, trailing slash, .. segments); the store layout is drawn per run from plans-only, legacy events-only, both files (the unused one holds a decoy), lock-less, and shadowed by a decoy store in the enclosing directory; init (with and without a directory argument) and lock removal are inserted at seeded points; every step is judged by the sequential refinement oracle (a write through one spelling must be visible through all others; where must name the project's .ergo; init changes nothing); non-trivial = at least one mutation in effect; distinct = distinct trace digests"
	case "C05":
		p.Modes = []Mode{{Name: "fork", Quick: 200, Deep: 6000,
			Run:    func(bin string, seed uint64) *RunReport { return runForkGenerated(bin, seed) },
			Replay: ReplayScenario}}
		p.Rule = "seeded sequential histories through every input mode (plan, results, prune, reopen, unclaim, epic moves, torn tails, legacy-format items) with 1-2 differential fork points each: observation before = after compact; second compact changes neither observation nor event count; then the same 3-8 generated commands plus a full claim drain run, with identical simulated clock and entropy, on the uncompacted and on the compacted store and must give byte-identical replies and equal observations; non-trivial = at least one mutation in effect; distinct = distinct trace digests"
	case "C03", "C04":
		p.Level = "fault_enumeration"
		p.Modes = []Mode{{Name: "crash", Quick: 60, Deep: 1500,
			Run:    func(bin string, seed uint64) *RunReport { return runCrashSweep(bin, prop, seed, thoroughTier) },
			Replay: ReplayCrash}}
		if prop == "C04" {
			p.Rule = "per sample: a seeded pre-state (sequential history; 1 in 4 with a stale .tmp left by an earlier killed rewrite) and one multi-event command (kind drawn first so that prune/plan/compact/sequence chains get their share; 1 in 3 with a 4-70 KB payload); the command's clean run yields its K visible system calls on .ergo; EVERY boundary k in 0..K is a kill point, plus a kill before the reply is written; after each kill the observation must equal the state before or the state after an uninterrupted twin run with the same clock and entropy; evaluations = sweep members executed; a sample is non-trivial when at least one kill fired; distinct = distinct trace digests of samples"
		} else {
			p.Rule = c03Rule
		}
		_ = "per sample: a seeded pre-state (sequential history) and one mutating command; the command's clean run yields its K visible system calls; EVERY boundary k in 0..K is a kill point, plus kill before the reply, plus torn writes at offsets {1,2,mid,len-2,len-1}+4 seeded offsets per log write (thorough: every offset for lines up to 512 B) and (C03) ENOSPC/EIO/EINTR returns on the fallible calls; evaluations = sweep members executed; a sample is non-trivial when at least one fault fired; distinct = distinct trace digests of samples"
	case "C06", "C07", "C08", "C09", "C10", "C11", "C14", "C15", "C16", "C17", "C20":
		p.Modes = []Mode{seqMode(prop, 400, 12000)}
		if prop == "C06" || prop == "C11" || prop == "C14" || prop == "C15" || prop == "C20" {
			p.Modes = append(p.Modes, Mode{Name: "conc", Quick: 12, Deep: 300,
				Run:    func(bin string, seed uint64) *RunReport { return runConcSample(bin, prop, seed, thoroughTier) },
				Replay: ReplayConc})
		}
		if prop == "C09" {
			p.Modes = append(p.Modes, Mode{Name: "conc", Quick: 16, Deep: 400,
				Run:    func(bin string, seed uint64) *RunReport { return runConcSample(bin, prop, seed, thoroughTier) },
				Replay: ReplayConc})
		}
		if prop == "C10" {
			p.Modes = append(p.Modes, Mode{Name: "conc", Quick: 36, Deep: 500,
				Run:    func(bin string, seed uint64) *RunReport { return runConcSample(bin, prop, seed, thoroughTier) },
				Replay: ReplayConc})
		}
		if prop == "C07" || prop == "C16" || prop == "C08" {
			p.Modes = append(p.Modes, Mode{Name: "conc", Quick: 16, Deep: 400,
				Run:    func(bin string, seed uint64) *RunReport { return runConcSample(bin, prop, seed, thoroughTier) },
				Replay: ReplayConc})
		}
		p.Rule = "seeded sequential command histories (adaptive generator biased per property, all input modes, clock profile and short-I/O faults drawn per run) executed by real ergo processes under the simulator and judged step by step against the reference model, plus cross-invariants on every observation; a run is non-trivial when at least one mutation took effect; distinct = distinct trace digests of non-trivial runs"
	default:
		return nil
	}
	return p
}

const c03Rule = "per sample: a seeded pre-state (sequential history; 1 in 4 with a stale .tmp left by an earlier killed rewrite) and one mutating command (1 in 3 with a 4-70 KB payload); the command's clean run yields its K visible system calls on .ergo; EVERY boundary k in 0..K is a kill point, plus a kill before the reply, plus torn writes at offsets {1,2,mid,len-2,len-1} and 4-10 seeded offsets per log/tmp write (thorough: every offset for lines up to 512 B), plus ENOSPC/EIO/EMFILE/EINTR returns on the fallible calls and a short write followed by ENOSPC; after each fault: all reads succeed, identity fields old-or-new, then 3-5 follow-up mutations must succeed, take effect and read back; evaluations = sweep members executed; a sample is non-trivial when at least one fault fired; distinct = distinct trace digests of samples"
