package main

func (r *Run) DoBatch(b *BatchSpec) {}
func (r *Run) Drain()               {}
