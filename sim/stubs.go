package main

func (r *Run) Drain() {}
