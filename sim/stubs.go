package main

func (r *Run) DoBatch(b *BatchSpec)        {}
func (r *Run) DoCrash(c Cmd, f Fault)      {}
func (r *Run) Drain()                      {}
