module ergosim

go 1.24

require github.com/anishathalye/porcupine v1.3.0
