package main

import (
	"fmt"
	"os"
	"os/exec"
	"path/filepath"
	"regexp"
	"strings"
)

// findToolchain returns the GOROOT of the Go toolchain /repo builds with:
// the version named in go.mod from the module cache (what GOTOOLCHAIN=auto
// would pick, and what the baseline test run used), else the newest
// pre-installed one.
func findToolchain(repo string) (string, error) {
	var cands []string
	if b, err := os.ReadFile(filepath.Join(repo, "go.mod")); err == nil {
		if m := regexp.MustCompile(`(?m)^toolchain go([0-9.]+)`).FindSubmatch(b); m != nil {
			cands = append(cands, string(m[1]))
		}
		if m := regexp.MustCompile(`(?m)^go ([0-9.]+)`).FindSubmatch(b); m != nil {
			v := string(m[1])
			cands = append(cands, v)
			if strings.Count(v, ".") == 1 {
				cands = append(cands, v+".0")
			}
		}
	}
	home, _ := os.UserHomeDir()
	var roots []string
	for _, v := range cands {
		roots = append(roots, filepath.Join(home, "go/pkg/mod/golang.org", "toolchain@v0.0.1-go"+v+".linux-amd64"))
		roots = append(roots, filepath.Join("/root/go/pkg/mod/golang.org", "toolchain@v0.0.1-go"+v+".linux-amd64"))
	}
	roots = append(roots, "/opt/veriftools/go1.26.8", "/root/go/pkg/mod/golang.org/toolchain@v0.0.1-go1.26.8.linux-amd64")
	for _, r := range roots {
		if st, err := os.Stat(filepath.Join(r, "bin/go")); err == nil && !st.IsDir() {
			return r, nil
		}
	}
	return "", fmt.Errorf("no usable Go toolchain found (tried %v)", roots)
}

// buildErgo builds cmd/ergo from repo's working tree with the interposer
// overlay into outDir/ergo and returns that path.
func buildErgo(repo, verifDir, outDir string) (string, error) {
	goroot, err := findToolchain(repo)
	if err != nil {
		return "", err
	}
	ovDir := filepath.Join(outDir, "overlay")
	ov, err := makeOverlay(goroot, filepath.Join(verifDir, "simkernel"), ovDir)
	if err != nil {
		return "", err
	}
	bin := filepath.Join(outDir, "ergo")
	cmd := exec.Command(filepath.Join(goroot, "bin/go"), "build", "-overlay", ov, "-o", bin, "./cmd/ergo")
	cmd.Dir = repo
	cmd.Env = append(os.Environ(), "GOTOOLCHAIN=local", "GOFLAGS=-mod=mod", "GOPROXY=off", "GOROOT="+goroot, "CGO_ENABLED=0",
		"GOCACHE="+filepath.Join(outDir, "gocache"))
	out, err := cmd.CombinedOutput()
	if err != nil {
		return "", fmt.Errorf("go build failed: %v\n%s", err, out)
	}
	return bin, nil
}
