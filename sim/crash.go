package main

// Crash sweeps (C03, C04): for a sampled pre-state and a sampled mutating
// command, enumerate EVERY visible system-call boundary as a kill point, a set
// of byte offsets at which each write is torn, and error returns for the
// fallible calls; judge the store after each, then keep using it.

import (
	"fmt"
	"io"
	"os"
	"path/filepath"
	"sort"
	"strings"
	"syscall"
)

// ---------------------------------------------------------------- snapshots

type Snapshot struct {
	dir    string
	clock  Clock
	crng   SplitMix
	rand   RandStream
	rrng   SplitMix
	amb    *SplitMix
	model  *Model
	obs    *Obs
	stepNo int
}

func copyTree(src, dst string) {
	os.RemoveAll(dst)
	err := filepath.Walk(src, func(p string, info os.FileInfo, err error) error {
		if err != nil {
			return err
		}
		rel, _ := filepath.Rel(src, p)
		t := filepath.Join(dst, rel)
		switch {
		case info.IsDir():
			return os.MkdirAll(t, 0o755)
		case info.Mode()&os.ModeSymlink != 0:
			l, _ := os.Readlink(p)
			return os.Symlink(l, t)
		case info.Mode().IsRegular():
			in, err := os.Open(p)
			if err != nil {
				return err
			}
			defer in.Close()
			out, err := os.OpenFile(t, os.O_CREATE|os.O_WRONLY|os.O_TRUNC, info.Mode().Perm())
			if err != nil {
				return err
			}
			if _, err := io.Copy(out, in); err != nil {
				out.Close()
				return err
			}
			out.Close()
			return os.Chtimes(t, info.ModTime(), info.ModTime())
		}
		return nil
	})
	if err != nil {
		harnessf("copyTree: %v", err)
	}
}

func (r *Run) Snapshot() *Snapshot {
	r.nsnap++
	s := &Snapshot{dir: filepath.Join(r.W.Root, fmt.Sprintf("snap%d", r.nsnap))}
	copyTree(r.W.Proj, s.dir)
	s.clock = *r.W.Clock
	s.crng = *r.W.Clock.rng
	s.rand = *r.W.Rand
	s.rand.forced4 = append([][]byte(nil), r.W.Rand.forced4...)
	s.rand.Minted = nil
	s.rrng = *r.W.Rand.rng
	if r.W.Amb.rng != nil {
		c := *r.W.Amb.rng
		s.amb = &c
	}
	s.model = r.M.Clone()
	s.obs = r.ensureObs()
	s.stepNo = r.StepNo
	return s
}

func (r *Run) Restore(s *Snapshot) {
	copyTree(s.dir, r.W.Proj)
	handed, adv, ties, backs, leaps := r.W.Clock.Handed, r.W.Clock.Advance, r.W.Clock.Ties, r.W.Clock.Backs, r.W.Clock.Leaps
	*r.W.Clock = s.clock
	crng := s.crng
	r.W.Clock.rng = &crng
	// keep cumulative counters growing across sweep members
	r.W.Clock.Handed, r.W.Clock.Advance, r.W.Clock.Ties, r.W.Clock.Backs, r.W.Clock.Leaps = handed, adv, ties, backs, leaps
	req, forced := r.W.Rand.Requests, r.W.Rand.Forced
	*r.W.Rand = s.rand
	rrng := s.rrng
	r.W.Rand.rng = &rrng
	r.W.Rand.forced4 = append([][]byte(nil), s.rand.forced4...)
	r.W.Rand.Requests, r.W.Rand.Forced = req, forced
	if s.amb != nil {
		c := *s.amb
		r.W.Amb.rng = &c
	}
	r.M = s.model.Clone()
	r.Obs = s.obs
	r.StepNo = s.stepNo
	r.W.holders = map[string]map[*Proc]int{}
}

// ---------------------------------------------------------------- judging one crash

type crashCtx struct {
	pre    *Obs   // S0
	clean  *Obs   // S1: after an uninterrupted run with the same clock/entropy
	m1     *Model // model after the uninterrupted run
	pred   Pred
	strict bool // C04: exactly S0 or exactly S1
}

func fieldsOf(it *ObsItem) map[string]string {
	if it == nil {
		return nil
	}
	f := map[string]string{
		"listed": fmt.Sprint(it.InList), "kind": it.Kind, "l.state": it.LState, "l.claimed_by": it.LClaimedBy, "l.epic": it.LEpic, "l.title": it.LTitle,
		"has_results": fmt.Sprint(it.HasResults),
	}
	if it.Shown {
		f["state"], f["claimed_by"], f["epic"], f["title"], f["body"] = it.State, it.ClaimedBy, it.Epic, it.Title, it.Body
		f["deps"] = strings.Join(it.Deps, ",")
		f["results"] = fmt.Sprint(it.Results)
		f["created_at"], f["uuid"] = it.CreatedAt, it.UUID
	}
	return f
}

// judgeCrash applies the crash oracles to the observation taken after the
// interrupted command. what describes the fault for messages/signatures.
func (r *Run) judgeCrash(c Cmd, cx *crashCtx, post *Obs, what, whatClass string) {
	shape := c.Shape()
	for _, f := range post.Failures {
		r.viol("C03", "read-fails-after-crash", c.Op+"|@"+whatClass, "after %s during %s a read fails: %s", what, c.String(), f)
	}
	if len(post.Failures) > 0 {
		return
	}
	d0 := SameObs(cx.pre, post)
	if len(d0) == 0 {
		r.W.Count.Inc("crash.outcome.before")
		return
	}
	var d1 []string
	if cx.clean != nil {
		d1 = SameObs(cx.clean, post)
		if len(d1) == 0 {
			r.W.Count.Inc("crash.outcome.after")
			return
		}
	}
	r.W.Count.Inc("crash.outcome.between")
	if cx.strict {
		r.viol("C04", "not-atomic", c.Op+"|@"+whatClass+"|"+partialClass(post), "%s interrupted by %s left a state that is neither before nor after: vs before: %s || vs after: %s", c.String(), what, strings.Join(d0, "; "), strings.Join(d1, "; "))
	}
	// C03 (weak): untouched items unchanged, every field of every item old or new
	ids := map[string]bool{}
	for id := range cx.pre.Items {
		ids[id] = true
	}
	for id := range post.Items {
		ids[id] = true
	}
	for id := range ids {
		f0 := fieldsOf(cx.pre.Items[id])
		var f1 map[string]string
		if cx.clean != nil {
			f1 = fieldsOf(cx.clean.Items[id])
		}
		fp := fieldsOf(post.Items[id])
		if fp == nil {
			if f0 != nil && (cx.clean == nil || f1 != nil) {
				r.viol("C03", "item-lost", c.Op+"|@"+whatClass, "after %s during %s item %s is gone although it exists both before and after the command", what, c.String(), id)
			}
			continue
		}
		if f0 == nil && f1 == nil {
			r.viol("C03", "item-from-nowhere", c.Op+"|@"+whatClass, "after %s during %s item %s exists although neither the state before nor after has it", what, c.String(), id)
			continue
		}
		for k, v := range fp {
			ok := false
			if f0 != nil {
				if v0, has := f0[k]; has && v0 == v {
					ok = true
				}
			}
			if !ok && f1 != nil {
				if v1, has := f1[k]; has && v1 == v {
					ok = true
				}
			}
			if !ok && (k == "deps" || k == "results" || k == "state" || k == "claimed_by" || k == "l.state" || k == "l.claimed_by" || k == "has_results") {
				// C03 allows any prefix of the command's own events to be missing:
				// set-valued fields and the state/claimant pair (claim then state
				// are two events) may pass through intermediate values. Atomicity
				// is C04's business.
				continue
			}
			if !ok {
				r.viol("C03", "field-neither-old-nor-new", c.Op+"|@"+whatClass+"|"+k, "after %s during %s item %s field %s = %q, before %q, after %q", what, shape, id, k, v, f0[k], f1[k])
			}
		}
	}
}

func partialClass(o *Obs) string {
	for _, id := range o.IDs() {
		it := o.Items[id]
		if it.Kind != "task" || !it.InList {
			continue
		}
		if it.LState == "todo" && it.LClaimedBy != "" {
			return "claimed-but-todo"
		}
		if (it.LState == "doing" || it.LState == "error") && it.LClaimedBy == "" {
			return "doing-but-unclaimed"
		}
	}
	return "partial"
}

// DoCrash runs command c with fault f (process 0) and judges the outcome
// against an uninterrupted twin. Used by replays (from scratch); sweeps call
// crashMember directly with a shared twin.
func (r *Run) DoCrash(c Cmd, f Fault) {
	snap := r.Snapshot()
	cx, _ := r.cleanTwin(c, snap)
	r.Restore(snap)
	r.crashMember(c, f, cx)
}

// cleanTwin runs c uninterrupted (fault-free) from the snapshot and records
// the state after; the caller restores the snapshot afterwards.
func (r *Run) cleanTwin(c Cmd, snap *Snapshot) (*crashCtx, *Proc) {
	cx := &crashCtx{pre: snap.obs, strict: r.Sc.Prop == "C04"}
	cx.pred = r.M.Predict(c)
	amb := r.W.Amb
	r.W.Amb = Ambient{}
	before := len(r.VL.V)
	p := r.DoCmd(c)
	r.W.Amb = amb
	r.VL.V = r.VL.V[:before] // the sequential oracles on the twin are other checks' business
	if p.ExitCode == 0 {
		cx.clean = r.Obs
		cx.m1 = r.M.Clone()
	}
	return cx, p
}

func faultClass(e *Ev, act string) string {
	kind := act
	if i := strings.IndexByte(act, ':'); i >= 0 {
		kind = act[:i]
	}
	return kind + "@" + opClass(e)
}

// crashMember: run c with the fault, observe, judge, resync.
func (r *Run) crashMember(c Cmd, f Fault, cx *crashCtx) (fired bool, p *Proc) {
	r.StepNo++
	r.Cmds++
	f.Proc = 0
	var faults []Fault
	spec := r.spec(c)
	if f.K == -2 {
		spec.Env = append(spec.Env, "ERGOSIM_NOTE=kill-at-stdout")
	} else {
		faults = []Fault{f}
		if f.Then != nil {
			t := *f.Then
			t.Proc = 0
			faults = append(faults, t)
		}
	}
	r.W.killAtStdout = f.K == -2
	amb := r.W.Amb
	r.W.Amb = Ambient{}
	res := r.W.RunBatch([]ProcSpec{spec}, seqSched{}, faults)
	r.W.Amb = amb
	r.W.killAtStdout = false
	p = res.Procs[0]
	var hit *Ev
	for _, e := range p.Events {
		if e.Visible && e.K == f.K {
			hit = e
		}
	}
	what, cls := "", ""
	switch {
	case f.K == -2:
		fired = p.State == psKilled
		what, cls = "kill before the reply is written", "kill@reply"
	case hit != nil && hit.Act != "go" && hit.Act != "":
		fired = true
		what = fmt.Sprintf("%s at event #%d (%s)", f.Act, f.K, hit.String())
		cls = faultClass(hit, f.Act)
	}
	if !fired {
		r.W.Count.Inc("crash.fault_not_reached")
	} else {
		r.Faults++
		r.W.Count.Inc("crash.members")
		r.W.Count.Inc("crash.class." + cls)
	}
	if p.State != psKilled {
		// the process survived (error injection): it must not have crashed
		r.checkProcess(c, p)
	}
	post := r.observe()
	if fired {
		r.judgeCrash(c, cx, post, what, cls)
		if p.State != psKilled && p.ExitCode == 0 && cx.clean != nil && (strings.HasPrefix(f.Act, "err:") || strings.HasPrefix(f.Act, "short:") && f.Then == nil) {
			// reported success although a call failed: then the effect must be there
			if d := SameObs(cx.clean, post); len(d) > 0 {
				r.viol("C03", "success-without-effect", c.Op+"|@"+cls, "%s reported success although %s, and the effect is not (fully) there: %s", c.String(), what, strings.Join(d, "; "))
			}
		}
	}
	r.resync(post)
	var vl VList
	CheckInvariants(post, &vl)
	for _, v := range vl.V {
		// invariants broken by a crash are C04's business when strict, C03's for read failures
		if v.Prop == "C06" && cx.strict {
			r.viol("C04", "invariant-after-crash", c.Op+"|@"+cls+"|"+v.Oracle, "after %s during %s: %s", what, c.String(), v.Detail)
		}
	}
	return fired, p
}

// followUps: keep using the store after the crash; anything that goes wrong
// now is a consequence of the crash (C03).
func (r *Run) followUps(steps []Step, c Cmd, what string) {
	before := len(r.VL.V)
	seen := r.seenSig
	r.seenSig = map[string]bool{}
	for _, st := range steps {
		r.ExecStep(st)
	}
	final := r.observe()
	var vl VList
	CheckInvariants(final, &vl)
	added := append([]Violation(nil), r.VL.V[before:]...)
	r.VL.V = r.VL.V[:before]
	r.seenSig = seen
	for _, v := range append(added, vl.V...) {
		switch v.Oracle {
		case "rejected-valid", "read-failed", "post-state", "failed-but-changed", "died-by-signal", "go-panic", "history-prefix", "whole-lines":
			r.viol("C03", "unusable-after-crash", "@"+c.Op+"|"+v.Oracle, "after %s during %s the store misbehaves: %s", what, c.Shape(), v.Detail)
		}
	}
}

// ---------------------------------------------------------------- the sweep

func isLogWrite(e *Ev) bool {
	b := filepath.Base(e.Path)
	return (e.Op == "write" || e.Op == "pwrite") && (strings.HasSuffix(b, ".jsonl") || strings.HasSuffix(b, ".tmp"))
}

// enumerateFaults lists the sweep members for a command whose clean run
// produced the given visible events.
func enumerateFaults(evs []*Ev, rng *SplitMix, thorough, errors, torn bool) []Fault {
	var fs []Fault
	for _, e := range evs {
		fs = append(fs, Fault{K: e.K, Act: "kill", Op: e.Op})
		if torn && isLogWrite(e) && e.Len > 1 {
			offs := map[int]bool{1: true, 2: true, e.Len / 2: true, e.Len - 2: true, e.Len - 1: true}
			if thorough && e.Len <= 512 {
				for n := 1; n < e.Len; n++ {
					offs[n] = true
				}
			} else {
				n := 4
				if e.Len > 4096 {
					n = 10 // long lines: more cut points, in particular beyond the first block
				}
				for i := 0; i < n; i++ {
					offs[1+rng.Intn(e.Len-1)] = true
				}
			}
			var sorted []int
			for n := range offs {
				sorted = append(sorted, n)
			}
			sort.Ints(sorted)
			for _, n := range sorted {
				if n >= 1 && n < e.Len {
					fs = append(fs, Fault{K: e.K, Act: fmt.Sprintf("torn:%d", n), Op: e.Op})
				}
			}
		}
		if !errors {
			continue
		}
		if isLogWrite(e) && e.Len > 2 {
			// a kernel-legal short write: the process lives on and must finish the job
			fs = append(fs, Fault{K: e.K, Act: fmt.Sprintf("short:%d", 1+rng.Intn(e.Len-1)), Op: e.Op, Note: "short write"})
		}
		switch {
		case isLogWrite(e):
			if e.Len > 2 {
				// the disk fills up in the middle: part of the data is written,
				// the retry for the rest fails
				fs = append(fs, Fault{K: e.K, Act: fmt.Sprintf("short:%d", e.Len/2), Op: e.Op, Note: "short then ENOSPC",
					Then: &Fault{K: e.K + 1, Act: fmt.Sprintf("err:%d", int(syscall.ENOSPC)), Op: "write"}})
			}
			fs = append(fs, Fault{K: e.K, Act: fmt.Sprintf("err:%d", int(syscall.ENOSPC)), Op: e.Op, Note: "ENOSPC"})
			fs = append(fs, Fault{K: e.K, Act: fmt.Sprintf("err:%d", int(syscall.EIO)), Op: e.Op, Note: "EIO"})
		case e.Op == "fsync" || e.Op == "fdatasync":
			fs = append(fs, Fault{K: e.K, Act: fmt.Sprintf("err:%d", int(syscall.EIO)), Op: e.Op, Note: "EIO"})
		case e.Op == "rename":
			fs = append(fs, Fault{K: e.K, Act: fmt.Sprintf("err:%d", int(syscall.EIO)), Op: e.Op, Note: "EIO"})
		case e.Op == "openat" && e.Flags&(syscall.O_WRONLY|syscall.O_RDWR|syscall.O_CREAT) != 0:
			fs = append(fs, Fault{K: e.K, Act: fmt.Sprintf("err:%d", int(syscall.ENOSPC)), Op: e.Op, Note: "ENOSPC"})
		case e.Op == "openat" && strings.HasSuffix(e.Path, ".jsonl"):
			fs = append(fs, Fault{K: e.K, Act: fmt.Sprintf("err:%d", int(syscall.EMFILE)), Op: e.Op, Note: "EMFILE"})
		case e.Op == "read" && strings.HasSuffix(e.Path, ".jsonl"):
			fs = append(fs, Fault{K: e.K, Act: fmt.Sprintf("err:%d", int(syscall.EIO)), Op: e.Op, Note: "EIO"})
		case e.Op == "flock" && e.Flags&syscall.LOCK_UN == 0:
			fs = append(fs, Fault{K: e.K, Act: fmt.Sprintf("err:%d", int(syscall.EINTR)), Op: e.Op, Note: "EINTR"})
		}
	}
	fs = append(fs, Fault{K: -2, Act: "kill", Op: "reply"})
	return fs
}

func multiEvent(c Cmd, m *Model) bool {
	switch c.Op {
	case "claim", "claim_id", "plan", "compact":
		return true
	case "prune":
		return c.Yes && len(m.PruneTargets()) >= 2
	case "sequence":
		return len(c.IDs) >= 3
	case "set", "new_task":
		n := 0
		for _, f := range []*string{c.Title, c.Body, c.Epic, c.State, c.Claim, c.RPath} {
			if f != nil {
				n++
			}
		}
		if c.Op == "new_task" {
			return c.State != nil || c.Claim != nil || c.RPath != nil
		}
		return n >= 2 || c.Claim != nil && *c.Claim != "" || c.State != nil && (*c.State == "doing" || *c.State == "error")
	}
	return false
}

// runCrashSweep: one sample = one pre-state + one target command; all its
// crash points are enumerated.
func runCrashSweep(bin, prop string, seed uint64, thorough bool) *RunReport {
	sc, rng := newScenario(prop, "crash", seed)
	g := NewGen(rng.Uint64())
	g.BadBias = 3
	g.Human = 0
	g.W["list"], g.W["show"], g.W["where"], g.W["prune_dry"], g.W["init"] = 0, 0, 0, 0, 0
	g.W["set"], g.W["claim"], g.W["plan"] = 30, 12, 6
	sc.Config.Clock = []string{"fine", "fine", "coarse"}[rng.Intn(3)]
	r := NewRun(bin, sc)
	defer r.Close()
	r.InitStore()
	nsetup := 3 + rng.Intn(10)
	for i := 0; i < nsetup; i++ {
		st := g.Next(r.M)
		sc.Steps = append(sc.Steps, st)
		r.ExecStep(st)
	}
	if rng.Chance(1, 4) {
		// what a compact/plan killed earlier left behind
		junk := strings.Repeat("{\"stale\":\"leftover of a killed rewrite\"}\n", 1+rng.Intn(400))
		st := Step{Disk: &DiskOp{Kind: "tmp_stale", Arg: junk}}
		sc.Steps = append(sc.Steps, st)
		r.ExecStep(st)
	}
	// violations of the sequential set-up phase belong to other checks
	r.VL.V = nil
	r.seenSig = map[string]bool{}
	// target: a mutating command the model expects to succeed
	var target Cmd
	found := false
	// pick the kind of command first, so that rare kinds (prune, plan, compact,
	// sequence chains) get their share of samples
	wantOp := ""
	if rng.Chance(1, 2) {
		wantOp = []string{"prune", "plan", "compact", "sequence", "claim", "claim_id", "set", "new_task"}[rng.Intn(8)]
	}
	if wantOp == "prune" {
		// give prune several targets of both kinds: finish every child of one
		// epic (so the epic goes too) and one more task
		var extra []Cmd
		for _, e := range r.M.Epics() {
			n := 0
			for _, t := range r.M.Tasks() {
				if t.Epic == e.ID && !finished(t.State) && legalMove[t.State]["done"] {
					extra = append(extra, Cmd{Op: "set", ID: t.ID, State: sp("done"), Agent: "x@h"})
					n++
				}
			}
			if n > 0 {
				break
			}
		}
		if len(extra) == 0 {
			extra = append(extra, Cmd{Op: "new_epic", Title: sp("empty epic")}, Cmd{Op: "new_task", Title: sp("finished"), State: sp("done")})
		}
		for i := range extra {
			st := Step{Cmd: &extra[i]}
			sc.Steps = append(sc.Steps, st)
			r.ExecStep(st)
		}
		r.VL.V = nil
		r.seenSig = map[string]bool{}
		target, found = Cmd{Op: "prune", Yes: true}, true
	}
	for try := 0; try < 200 && !found; try++ {
		st := g.Next(r.M)
		if st.Cmd == nil || st.Cmd.IsRead() || st.Cmd.Op == "init" {
			continue
		}
		if wantOp != "" && st.Cmd.Op != wantOp && try < 150 {
			continue
		}
		if prop == "C04" && !multiEvent(*st.Cmd, r.M) {
			continue
		}
		if r.M.Predict(*st.Cmd).Class == MustFail {
			continue
		}
		target, found = *st.Cmd, true
	}
	if !found {
		return r.Report()
	}
	// size dimension: every third sample carries a payload of several KB (or
	// more than the 64 KB scanner block), so that one event line spans many
	// blocks and one command's batch exceeds common buffer sizes
	if rng.Chance(1, 3) {
		size := []int{4200, 9000, 70000, 20000}[rng.Intn(4)]
		big := bigText(rng, size)
		switch target.Op {
		case "new_task", "new_epic":
			if target.Mode == "flags" {
				target.Mode = "json"
			}
			target.Body = &big
			if target.Op == "new_task" && prop == "C04" && target.Claim == nil && target.State == nil {
				target.Claim = sp("big@h")
			}
		case "set":
			if target.Mode == "flags" {
				target.Mode = "json"
			}
			target.Body = &big
			if prop == "C04" && target.State == nil && target.Claim == nil {
				target.Title = sp("retitled with a big body")
			}
		default:
			if id, ok := g.liveOf(r.M, isTask); ok {
				target = Cmd{Op: "set", ID: id, Body: &big, Title: sp("big body and title")}
			}
		}
		if r.M.Predict(target).Class == MustFail {
			return r.Report()
		}
		r.W.Count.Inc("crash.big_payload_samples")
	}
	snap := r.Snapshot()
	base := len(sc.Steps)
	// clean twin
	cx, pclean := r.cleanTwin(target, snap)
	evs := pclean.VisibleEvents()
	// follow-ups, generated against the post-state of the clean run
	var follow []Step
	fm := r.M
	if cx.m1 != nil {
		fm = cx.m1
	}
	gf := NewGen(rng.Uint64())
	gf.BadBias, gf.Human = 0, 0
	gf.W = map[string]int{"new_task": 10, "set": 12, "claim": 6, "sequence": 4, "prune": 2, "compact": 3, "plan": 2, "new_epic": 2}
	nf := 3 + rng.Intn(3)
	for i := 0; i < nf; i++ {
		follow = append(follow, gf.Next(fm))
	}
	faults := enumerateFaults(evs, rng, thorough, prop == "C03", prop == "C03")
	execs := 0
	firstMut := -1
	for _, e := range evs {
		if e.IsMutating() && !strings.HasSuffix(e.Path, "/lock") {
			firstMut = e.K
			break
		}
	}
	var firstViolSteps []Step
	for _, f := range faults {
		r.Restore(snap)
		nv := len(r.VL.V)
		fired, _ := r.crashMember(target, f, cx)
		execs++
		if !fired {
			continue
		}
		fu := follow
		if f.K >= 0 && firstMut >= 0 && f.K < firstMut && len(fu) > 1 {
			fu = fu[:1] // nothing was written yet: one follow-up suffices
		}
		what := fmt.Sprintf("%s at #%d(%s)", f.Act, f.K, f.Op)
		if prop == "C03" {
			r.followUps(fu, target, what)
		}
		if len(r.VL.V) > nv && firstViolSteps == nil {
			ff := f
			tc := target
			firstViolSteps = append([]Step{{Cmd: &tc, Crash: &ff}}, fu...)
		}
		// every violation of this sample shares the scenario of the first one
		// that showed it; record per-violation scenarios:
		for i := nv; i < len(r.VL.V); i++ {
			ff := f
			tc := target
			steps := append(append([]Step{}, sc.Steps[:base]...), Step{Cmd: &tc, Crash: &ff})
			if prop == "C03" {
				steps = append(steps, fu...)
			}
			r.violScen = append(r.violScen, steps)
		}
	}
	rep := r.Report()
	rep.Execs = execs
	rep.NonTrivial = execs > 0
	rep.Extra = map[string]int{"crash_points_swept": len(faults), "samples": 1}
	// attach the scenario of the first violation (for replay/minimisation)
	if len(r.VL.V) > 0 && len(r.violScen) > 0 {
		full := sc.Clone()
		full.Steps = r.violScen[0]
		rep.Sc = full
		// keep only violations that this scenario demonstrates: the first
		rep.V = r.VL.V
		rep.PerViolScen = r.violScen
	} else {
		tc := target
		full := sc.Clone()
		full.Steps = append(full.Steps, Step{Cmd: &tc, Note: fmt.Sprintf("swept %d crash points", len(faults))})
		rep.Sc = full
	}
	return rep
}

// ReplayCrash replays a crash scenario from scratch.
func ReplayCrash(bin string, sc *Scenario) *RunReport {
	r := NewRun(bin, sc)
	defer r.Close()
	r.InitStore()
	crashed := false
	var tail []Step
	var target Cmd
	what := ""
	for i, st := range sc.Steps {
		if st.Cmd != nil && st.Crash != nil && !crashed {
			crashed = true
			target = *st.Cmd
			what = fmt.Sprintf("%s at #%d(%s)", st.Crash.Act, st.Crash.K, st.Crash.Op)
			r.DoCrash(*st.Cmd, *st.Crash)
			tail = sc.Steps[i+1:]
			break
		}
		r.ExecStep(st)
	}
	if crashed && sc.Prop == "C03" {
		r.followUps(tail, target, what)
	} else if crashed {
		for _, st := range tail {
			r.ExecStep(st)
		}
	}
	return r.Report()
}

func bigText(rng *SplitMix, size int) string {
	var b strings.Builder
	words := []string{"lorem", "ipsum", "dolor", "sit", "amet", "日本語", "emoji🚀", "\"quoted\"", "back\\slash", "<html&>"}
	for b.Len() < size {
		b.WriteString(words[rng.Intn(len(words))])
		if rng.Chance(1, 12) {
			b.WriteByte('\n')
		} else {
			b.WriteByte(' ')
		}
	}
	return b.String()
}
