package main

// mkoverlay: generate a `go build -overlay` JSON that replaces a handful of
// standard-library files (for the ergo build only) with patched copies that
// carry the ergosim interposer. Nothing in GOROOT or /repo is modified.

import (
	"encoding/json"
	"fmt"
	"os"
	"path/filepath"
	"regexp"
	"strings"
)

var hookedFuncs = []string{
	"openat", "read", "write", "pread", "pwrite", "Close", "Renameat", "Flock",
	"Fsync", "Fdatasync", "Ftruncate", "Truncate", "unlinkat", "Mkdirat",
	"fstatat", "Fstat", "Getdents", "Fchmod", "fchmodat", "linkat", "symlinkat",
}

const timeHook = `package time

import "syscall"

func verifsimNow() (Time, bool) {
	ns, ok := syscall.VerifsimNow()
	if !ok {
		return Time{}, false
	}
	sec := ns / 1000000000
	nsec := ns % 1000000000
	if nsec < 0 {
		nsec += 1000000000
		sec--
	}
	return unixTime(sec, int32(nsec)), true
}
`

const randHook = `package rand

import "syscall"

func verifsimRead(b []byte) bool { return syscall.VerifsimRand(b) }
`

func replaceOnce(src, old, new, what string) (string, error) {
	if strings.Count(src, old) != 1 {
		return "", fmt.Errorf("patch anchor for %s found %d times (want 1)", what, strings.Count(src, old))
	}
	return strings.Replace(src, old, new, 1), nil
}

// makeOverlay writes patched files under outDir and returns the overlay path.
func makeOverlay(goroot, simkernelDir, outDir string) (string, error) {
	if err := os.MkdirAll(outDir, 0o755); err != nil {
		return "", err
	}
	repl := map[string]string{}

	// 1. syscall/zsyscall_linux_amd64.go: rename the generated wrappers.
	zpath := filepath.Join(goroot, "src/syscall/zsyscall_linux_amd64.go")
	zb, err := os.ReadFile(zpath)
	if err != nil {
		return "", err
	}
	z := string(zb)
	for _, f := range hookedFuncs {
		re := regexp.MustCompile(`(?m)^func ` + regexp.QuoteMeta(f) + `\(`)
		if n := len(re.FindAllStringIndex(z, -1)); n != 1 {
			return "", fmt.Errorf("syscall wrapper %s found %d times in %s", f, n, zpath)
		}
		z = re.ReplaceAllString(z, "func vsReal_"+f+"(")
	}
	zout := filepath.Join(outDir, "zsyscall_linux_amd64.go")
	if err := os.WriteFile(zout, []byte(z), 0o644); err != nil {
		return "", err
	}
	repl[zpath] = zout

	// 2. the interposer itself, as a new file of package syscall.
	ib, err := os.ReadFile(filepath.Join(simkernelDir, "verifsim_linux.go"))
	if err != nil {
		return "", err
	}
	iout := filepath.Join(outDir, "verifsim_linux.go")
	if err := os.WriteFile(iout, ib, 0o644); err != nil {
		return "", err
	}
	repl[filepath.Join(goroot, "src/syscall/verifsim_linux.go")] = iout

	// 3. time.Now
	tpath := filepath.Join(goroot, "src/time/time.go")
	tb, err := os.ReadFile(tpath)
	if err != nil {
		return "", err
	}
	t, err := replaceOnce(string(tb), "func Now() Time {\n", "func Now() Time {\n\tif t, ok := verifsimNow(); ok {\n\t\treturn t\n\t}\n", "time.Now")
	if err != nil {
		return "", err
	}
	tout := filepath.Join(outDir, "time.go")
	if err := os.WriteFile(tout, []byte(t), 0o644); err != nil {
		return "", err
	}
	repl[tpath] = tout
	thout := filepath.Join(outDir, "time_verifsim.go")
	if err := os.WriteFile(thout, []byte(timeHook), 0o644); err != nil {
		return "", err
	}
	repl[filepath.Join(goroot, "src/time/verifsim.go")] = thout

	// 4. crypto/rand.Read
	rpath := filepath.Join(goroot, "src/crypto/rand/rand.go")
	rb, err := os.ReadFile(rpath)
	if err != nil {
		return "", err
	}
	r, err := replaceOnce(string(rb), "func Read(b []byte) (n int, err error) {\n", "func Read(b []byte) (n int, err error) {\n\tif verifsimRead(b) {\n\t\treturn len(b), nil\n\t}\n", "crypto/rand.Read")
	if err != nil {
		return "", err
	}
	rout := filepath.Join(outDir, "rand.go")
	if err := os.WriteFile(rout, []byte(r), 0o644); err != nil {
		return "", err
	}
	repl[rpath] = rout
	rhout := filepath.Join(outDir, "rand_verifsim.go")
	if err := os.WriteFile(rhout, []byte(randHook), 0o644); err != nil {
		return "", err
	}
	repl[filepath.Join(goroot, "src/crypto/rand/verifsim.go")] = rhout

	ov := map[string]any{"Replace": repl}
	ob, _ := json.MarshalIndent(ov, "", " ")
	opath := filepath.Join(outDir, "overlay.json")
	if err := os.WriteFile(opath, ob, 0o644); err != nil {
		return "", err
	}
	return opath, nil
}
