package main

// Seeded generation of commands. Generation is adaptive (it looks at the
// model's current state to aim commands at interesting items) and every
// generated command is recorded in the scenario with symbolic references, so
// a replay needs no generator.

import (
	"fmt"
	"path"
	"strings"
)

func pathClean(p string) string { return path.Clean(p) }

// isGoodFile: one of the agent's own work products (never a directory, a link
// or something outside the project).
func isGoodFile(clean string) bool {
	for _, f := range goodFiles {
		if f == clean {
			return true
		}
	}
	return false
}

type Gen struct {
	R            *SplitMix
	W            map[string]int // weights by command family
	Text         string         // "plain" | "unicode" | "huge"
	Modes        []string       // input modes to draw from
	Agents       []string
	nfile        int
	BadBias      int // percent of commands deliberately aimed at failure causes
	Human        int // percent of commands run without --json
	Known        map[string]bool
	ForcePct     int  // percent of creations whose first id draw is forced to collide
	RawPct       int  // percent of JSON inputs delivered as a hand-written byte string (padding, escapes, or malformed)
	Links        bool // file ops also create symlinks (C20)
	RepeatPct    int  // percent of result attachments that are repeated verbatim
	EditAgainPct int  // percent of text edits that are followed by another edit of the same field of the same item
	ReclaimPct   int  // percent of claims by id that are followed by release and a second claim
	MixPct       int  // percent of JSON-stdin creations that also carry a field flag (undefined input, invariants only)
	ResPct       int  // extra percent of set commands that attach a result
	AimPct       int  // percent of commands found by searching the model for a rare outcome class (aim.go)
	IOPct        int  // percent of mutating commands that meet an I/O error (short write + ENOSPC, EIO on read, EMFILE on open)
	lastRes      *Cmd
	queue        []Step // follow-ups of an earlier command, issued over the next steps
	rewrote      bool
	wantCompact  bool
	// avoid triggers of open known findings in most runs (see DESIGN 5)
	Avoid map[string]bool
}

func defaultWeights() map[string]int {
	return map[string]int{
		"new_task": 14, "new_epic": 5, "set": 22, "claim": 8, "claim_id": 4, "sequence": 9, "sequence_rm": 3,
		"plan": 4, "prune": 3, "prune_dry": 2, "compact": 3, "init": 1, "list": 3, "show": 3, "where": 1, "file": 4,
	}
}

func NewGen(seed uint64) *Gen {
	return &Gen{R: NewSplitMix(seed), W: defaultWeights(), Text: "plain", Modes: []string{"json", "json", "json", "flags", "bodystdin"},
		Agents: []string{"a1@h", "a2@h", "a3@h"}, BadBias: 12, Human: 5, AimPct: 3, Avoid: map[string]bool{}}
}

func (g *Gen) pick(w map[string]int) string {
	total := 0
	ks := make([]string, 0, len(w))
	for k := range w {
		ks = append(ks, k)
	}
	sortStrings(ks)
	for _, k := range ks {
		total += w[k]
	}
	if total == 0 {
		return ks[0]
	}
	n := g.R.Intn(total)
	for _, k := range ks {
		n -= w[k]
		if n < 0 {
			return k
		}
	}
	return ks[len(ks)-1]
}

func sortStrings(s []string) {
	for i := 1; i < len(s); i++ {
		for j := i; j > 0 && s[j] < s[j-1]; j-- {
			s[j], s[j-1] = s[j-1], s[j]
		}
	}
}

func (g *Gen) oneOf(xs ...string) string { return xs[g.R.Intn(len(xs))] }

var plainWords = []string{"alpha", "beta", "gamma", "delta", "fix", "add", "login", "cache", "api", "docs", "test", "refactor", "ship", "index", "parser"}

var spicy = []string{
	"quote\"inside", "back\\slash", "tab\there", "new\nline", "<b>&amp;</b>", "emoji 🚀 rocket", "日本語のタイトル", "combining é å",
	"zero​width", "rtl ‮abc", "ctrl\x01\x1f", "nul\x00byte", "ls ps ", "𝔘𝔫𝔦𝔠𝔬𝔡𝔢", "'single'", "`tick`", "$HOME ${x}", "%s %d",
	"--flag-like", "  padded  ", "{\"json\":true}", "# heading", "line1\r\nline2", " nbsp ", "mixed <>&\"'\\/",
}

// text made only of characters that render as nothing (or nearly): valid
// Unicode, not whitespace, so it is a legitimate title or body
var invisible = []string{"\u0301", "\u0007", "\u200d", "\u00ad", "\x1b[31", "\u200b", "\ufeff", "\u2060", "\u202e", "\u0301\u0302\u0303", "\x7f", "\u034f", "\u0000", "\u200e\u200f", "\U000e0001"}

func (g *Gen) text(kind string) string {
	if g.Text != "plain" && g.R.Chance(1, 10) {
		s := invisible[g.R.Intn(len(invisible))]
		if g.R.Chance(1, 3) {
			s += invisible[g.R.Intn(len(invisible))]
		}
		return s
	}
	if g.Text != "plain" && g.R.Chance(1, 6) {
		// nothing but 3- and 4-byte characters: wherever a read or a write is
		// cut inside this text, it is cut inside a character
		dense := []string{"日本語", "🚀", "𝔘𝔫𝔦", "한국어", "éå", "✓→", "中文字符"}
		var sb strings.Builder
		for k := 5 + g.R.Intn(60); k > 0; k-- {
			sb.WriteString(dense[g.R.Intn(len(dense))])
		}
		return fmt.Sprintf("%s%d", sb.String(), g.R.Intn(100000))
	}
	n := 1 + g.R.Intn(3)
	var parts []string
	for i := 0; i < n; i++ {
		parts = append(parts, plainWords[g.R.Intn(len(plainWords))])
	}
	s := strings.Join(parts, " ")
	if g.Text != "plain" && g.R.Chance(2, 3) {
		s = s + " " + spicy[g.R.Intn(len(spicy))]
		if g.R.Chance(1, 3) {
			s = spicy[g.R.Intn(len(spicy))] + " " + s
		}
	}
	if kind == "body" && g.R.Chance(1, 3) {
		s += "\n\n- item one\n- item two\n"
	}
	if g.Text == "huge" && kind == "body" && g.R.Chance(1, 40) {
		// at or beyond what one event line can hold (10 MiB including the JSON
		// around the text): to be refused, or stored and readable - also after
		// compaction has folded it into another event - never stored and unreadable
		n := 10*1024*1024 + g.R.Intn(4096)
		if g.R.Chance(1, 2) {
			n = 10*1024*1024 - 700 + g.R.Intn(800) // the last few hundred bytes under the limit
		}
		g.queue = append(g.queue, Step{Cmd: &Cmd{Op: "compact"}}, Step{Cmd: &Cmd{Op: "list", LAll: true}})
		return "oversized " + strings.Repeat("x", n)
	}
	if g.Text == "huge" && kind == "body" && g.R.Chance(1, 4) {
		n := 200 + g.R.Intn(3000)
		if g.R.Chance(1, 5) {
			n = 8000 + g.R.Intn(18000) // several hundred KB: many scanner-buffer doublings
		}
		s += strings.Repeat("x𝔘 line of filler text\n", n)
	}
	s = fmt.Sprintf("%s %d", s, g.R.Intn(100000))
	if g.Text != "plain" && g.R.Chance(1, 5) {
		// surrounding whitespace: kept verbatim by JSON input and plan, trimmed
		// (titles only) by flags and by set
		s = g.oneOf(" ", "  ", "\t", "\n", "") + s + g.oneOf(" ", "   ", "\t", " \n", "")
	}
	return s
}

// refs by class
func (g *Gen) liveOf(m *Model, pred func(*MItem) bool) (string, bool) {
	var c []string
	for i, id := range m.Order {
		if it := m.Items[id]; it != nil && pred(it) {
			c = append(c, fmt.Sprintf("#%d", i))
		}
	}
	if len(c) == 0 {
		return "", false
	}
	return c[g.R.Intn(len(c))], true
}

func (g *Gen) prunedRef(m *Model) (string, bool) {
	var c []string
	for i, id := range m.Order {
		if m.Pruned[id] {
			c = append(c, fmt.Sprintf("#%d", i))
		}
	}
	if len(c) == 0 {
		return "", false
	}
	return c[g.R.Intn(len(c))], true
}

func isTask(it *MItem) bool { return !it.IsEpic }
func isEpic(it *MItem) bool { return it.IsEpic }
func anyItem(*MItem) bool   { return true }

// ref draws a reference; bad=true aims at unknown/pruned/wrong-kind ids.
func (g *Gen) ref(m *Model, pred func(*MItem) bool, bad bool) string {
	if bad {
		switch g.R.Intn(4) {
		case 3:
			// a live id of the right kind with surrounding whitespace: names
			// nothing (ids are compared exactly)
			if r, ok := g.liveOf(m, pred); ok {
				return g.oneOf(" ", "") + m.Resolve(r) + g.oneOf(" ", "\n", "\t")
			}
		case 0:
			if r, ok := g.prunedRef(m); ok {
				return r
			}
		case 1:
			if r, ok := g.liveOf(m, func(it *MItem) bool { return !pred(it) }); ok {
				return r
			}
		}
		return g.oneOf("NOPE22", "ZZZZZZ", "abcdef", "#999")
	}
	if r, ok := g.liveOf(m, pred); ok {
		return r
	}
	return "#999"
}

func (g *Gen) bad() bool { return g.R.Intn(100) < g.BadBias }

var allStates = []string{"todo", "doing", "done", "blocked", "canceled", "error"}

func (g *Gen) state() string {
	if g.R.Chance(1, 25) {
		return g.oneOf("finished", "DONE", "", "to do")
	}
	return allStates[g.R.Intn(len(allStates))]
}

func (g *Gen) agent() string { return g.Agents[g.R.Intn(len(g.Agents))] }

func (g *Gen) mode() string { return g.Modes[g.R.Intn(len(g.Modes))] }

// Next generates the next step for a sequential run.
func (g *Gen) Next(m *Model) Step {
	st := g.next(m)
	if c := st.Cmd; c != nil && g.ForcePct > 0 && (c.Op == "new_task" || c.Op == "new_epic" || c.Op == "plan") && g.R.Intn(100) < g.ForcePct {
		// entropy fault: the next id draw collides with a pruned id (must not be
		// re-issued) or with a live one (must be retried)
		if ref, ok := g.prunedRef(m); ok && g.R.Chance(2, 3) {
			st.ForceID = ref
		} else if ref, ok := g.liveOf(m, anyItem); ok {
			st.ForceID = ref
		}
	}
	if c := st.Cmd; c != nil && !c.IsRead() && g.IOPct > 0 && g.R.Intn(100) < g.IOPct {
		f := &IOFault{}
		switch g.R.Intn(4) {
		case 0, 1:
			f.Call, f.Errno = "write", []int{28, 28, 5, 122}[g.R.Intn(4)] // ENOSPC EIO EDQUOT
			if g.R.Chance(2, 3) {
				f.Short = 1 + g.R.Intn(300)
			}
		case 2:
			f.Call, f.Errno, f.Nth = "read", 5, g.R.Intn(2)
		case 3:
			f.Call, f.Errno, f.Nth = "openat", []int{24, 5, 28}[g.R.Intn(3)], g.R.Intn(2) // EMFILE EIO ENOSPC
		}
		st.IO = f
	}
	if st.Cmd != nil {
		argvSafe(st.Cmd)
	}
	return st
}

// argvSafe makes a command expressible on a command line: text that travels
// in argv cannot contain NUL (no caller can pass one) and one argv string
// cannot exceed 128 KiB. Applied to every generated command, whoever built it.
func argvSafe(c *Cmd) {
	if c.Mode != "" && c.Mode != "json" {
		strip := func(p *string) {
			if p != nil {
				*p = strings.ReplaceAll(*p, "\x00", "")
			}
		}
		strip(c.Title)
		if c.Mode == "flags" {
			strip(c.Body)
		}
		strip(c.RSum)
		strip(c.RPath)
		// one argv string cannot exceed 128 KiB (MAX_ARG_STRLEN): no caller can
		// pass more by flag; such bodies travel on stdin
		if c.Mode == "flags" && c.Body != nil && len(*c.Body) > 100000 {
			c.Mode = "bodystdin"
		}
		if c.Title != nil && len(*c.Title) > 100000 {
			t := (*c.Title)[:1000]
			c.Title = &t
		}
	}
}

func (g *Gen) next(m *Model) Step {
	// histories with repeats: the same file attached again (unchanged) to the
	// same task, possibly with another summary, then often a compaction
	if g.lastRes != nil && g.RepeatPct > 0 {
		if g.R.Intn(100) < g.RepeatPct {
			if g.lastRes.RPath != nil && !g.rewrote && isGoodFile(pathClean(*g.lastRes.RPath)) && g.R.Chance(1, 3) {
				// the attached file changes (same length or not) while its mtime
				// stays; the next attachment must hash the new content
				g.rewrote = true
				p := strings.TrimPrefix(pathClean(*g.lastRes.RPath), "./")
				return Step{File: &FileOp{Path: p, Kind: "file", KeepMeta: true, Content: fmt.Sprintf("REWRITTEN %d with enough content to be longer than any link target\n", g.R.Intn(10))}}
			}
			g.rewrote = false
			c := *g.lastRes
			if g.R.Chance(1, 2) {
				c.RSum = sp(g.text("title"))
			}
			g.lastRes = nil
			g.wantCompact = true
			return Step{Cmd: &c}
		}
		g.lastRes = nil
	}
	if g.wantCompact {
		g.wantCompact = false
		if g.R.Chance(2, 3) {
			return Step{Cmd: &Cmd{Op: "compact"}}
		}
	}
	st := g.next2(m)
	if c := st.Cmd; c != nil && g.RawPct > 0 && (c.Mode == "" || c.Mode == "json") && (c.Op == "new_task" || c.Op == "new_epic" || c.Op == "set" || c.Op == "plan") && g.R.Intn(100) < g.RawPct {
		g.rawVariant(c)
	}
	if c := st.Cmd; c != nil && c.Op == "set" && c.RPath != nil && c.RSum != nil {
		cc := *c
		cc.Title, cc.Body, cc.Epic, cc.State, cc.Claim = nil, nil, nil, nil, nil
		cc.Mode = "json"
		g.lastRes = &cc
	}
	return st
}

func (g *Gen) next2(m *Model) Step {
	if len(g.queue) > 0 && g.R.Chance(2, 3) {
		st := g.queue[0]
		g.queue = g.queue[1:]
		return st
	}
	if g.AimPct > 0 && g.R.Intn(100) < g.AimPct {
		if st, ok := g.aim(m); ok {
			return st
		}
	}
	fam := g.pick(g.W)
	human := g.R.Intn(100) < g.Human
	switch fam {
	case "file":
		return Step{File: g.fileOp()}
	case "new_epic":
		c := Cmd{Op: "new_epic", Mode: g.mode(), Title: sp(g.text("title")), Human: human}
		if g.R.Chance(1, 2) || c.Mode == "bodystdin" {
			c.Body = sp(g.text("body"))
		}
		if g.bad() {
			switch g.R.Intn(4) {
			case 0:
				c.Title = sp("   ")
			case 1:
				if c.Mode == "json" {
					c.State = sp("todo")
				}
			case 2:
				c.Title = nil
			case 3:
				if c.Mode == "json" {
					c.Body = sp(" \n ")
				}
			}
		}
		return Step{Cmd: &c}
	case "new_task":
		c := Cmd{Op: "new_task", Mode: g.mode(), Title: sp(g.text("title")), Human: human}
		if g.R.Chance(1, 2) || c.Mode == "bodystdin" {
			c.Body = sp(g.text("body"))
		}
		if g.R.Chance(1, 2) {
			e := g.ref(m, isEpic, g.bad())
			if e != "#999" || g.bad() {
				c.Epic = &e
			}
		}
		if g.R.Chance(1, 4) {
			c.State = sp(g.state())
		}
		if g.R.Chance(1, 5) {
			c.Claim = sp(g.agent())
		}
		if g.R.Chance(1, 3) {
			c.Agent = g.agent()
		}
		if c.Mode == "json" && g.MixPct > 0 && g.R.Intn(100) < g.MixPct {
			// field flags next to JSON on stdin: undefined by the manual, so
			// nothing is predicted - but no reading of it may store an epic that
			// is not a live epic, a state without its claim, and so on
			c.Loose = true
			switch g.R.Intn(3) {
			case 0:
				c.Extra = []string{"--epic", m.Resolve(g.ref(m, isEpic, g.R.Chance(2, 3)))}
			case 1:
				c.Extra = []string{"--state", g.state()}
			case 2:
				c.Extra = []string{"--claim", g.agent()}
			}
		}
		if c.Mode == "json" && g.R.Chance(1, 12) {
			g.addResult(&c)
		}
		if g.bad() {
			switch g.R.Intn(4) {
			case 0:
				c.Title = sp(" ")
			case 1:
				c.Title = nil
			case 2:
				if c.Mode == "json" {
					c.Claim = sp("")
				}
			case 3:
				if c.Mode == "json" {
					c.Body = sp("")
				}
			}
		}
		return Step{Cmd: &c}
	case "set":
		c := Cmd{Op: "set", Mode: g.mode(), Human: human}
		pred := isTask
		if g.R.Chance(1, 6) {
			pred = isEpic
		}
		c.ID = g.ref(m, pred, g.bad())
		nf := 0
		if g.R.Chance(1, 4) {
			c.Title = sp(g.text("title"))
			nf++
		}
		if g.R.Chance(1, 4) || c.Mode == "bodystdin" {
			c.Body = sp(g.text("body"))
			nf++
		}
		if g.R.Chance(1, 5) {
			e := g.ref(m, isEpic, g.bad())
			if c.Mode == "json" && g.R.Chance(1, 4) {
				e = ""
			}
			c.Epic = &e
			nf++
		}
		if g.R.Chance(3, 5) {
			c.State = sp(g.state())
			nf++
		}
		if g.R.Chance(1, 4) {
			if c.Mode == "json" && g.R.Chance(1, 3) {
				c.Claim = sp("")
			} else {
				c.Claim = sp(g.agent())
			}
			nf++
		}
		if g.R.Chance(1, 7) || g.ResPct > 0 && g.R.Intn(100) < g.ResPct {
			g.addResult(&c)
			nf++
		}
		if g.R.Chance(1, 2) {
			c.Agent = g.agent()
		}
		if nf == 0 {
			c.State = sp(g.state())
		}
		if (c.Title != nil || c.Body != nil) && g.EditAgainPct > 0 && g.R.Intn(100) < g.EditAgainPct {
			// the same text field of the same item is edited again a little
			// later (whatever the clock did in between, the last edit counts)
			again := Cmd{Op: "set", Mode: g.mode(), ID: c.ID}
			if c.Title != nil {
				again.Title = sp(g.text("title"))
			}
			if c.Body != nil || again.Mode == "bodystdin" {
				again.Body = sp(g.text("body"))
			}
			if it := m.Items[m.Resolve(c.ID)]; it != nil && g.R.Chance(1, 2) {
				// ... or edited BACK to what it was before this edit (A, B, A):
				// an edit all the same, with its own updated_at
				if c.Title != nil && strings.TrimSpace(it.Title) != "" {
					again.Title = sp(it.Title)
				}
				if again.Body != nil && it.Body != "" {
					again.Body = sp(it.Body)
				}
			}
			g.queue = append(g.queue, Step{Cmd: &again})
			if g.R.Chance(1, 3) {
				g.queue = append(g.queue, Step{Cmd: &Cmd{Op: "compact"}}, Step{Cmd: &Cmd{Op: "show", ID: c.ID}})
			}
		}
		if g.bad() && c.Mode == "json" {
			switch g.R.Intn(3) {
			case 0:
				c.Title = sp("  ")
			case 1:
				c.Body = sp("")
			case 2:
				c.RSum = sp("only summary")
				c.RPath = nil
			}
		}
		return Step{Cmd: &c}
	case "claim":
		c := Cmd{Op: "claim", Agent: g.agent(), Human: human}
		if g.R.Chance(1, 3) {
			e := g.ref(m, isEpic, g.bad())
			c.Epic = &e
		}
		if g.R.Chance(1, 20) {
			c.Agent = ""
		}
		return Step{Cmd: &c}
	case "claim_id":
		c := Cmd{Op: "claim_id", Agent: g.agent(), ID: g.ref(m, isTask, g.bad()), Human: human}
		if g.ReclaimPct > 0 && g.R.Intn(100) < g.ReclaimPct {
			// claimed, released, claimed again by somebody else (whatever the
			// clock did in between): the second claimant is the claimant
			g.queue = append(g.queue,
				Step{Cmd: &Cmd{Op: "set", Mode: "json", ID: c.ID, State: sp("todo"), Claim: sp("")}},
				Step{Cmd: &Cmd{Op: "claim_id", Agent: g.agent(), ID: c.ID}},
				Step{Cmd: &Cmd{Op: "show", ID: c.ID}})
		}
		if g.R.Chance(1, 20) {
			c.Agent = ""
		}
		return Step{Cmd: &c}
	case "sequence":
		n := 2 + g.R.Intn(3)
		pred := isTask
		if g.R.Chance(1, 4) {
			pred = isEpic
		}
		c := Cmd{Op: "sequence", Human: human}
		if g.R.Chance(1, 4) {
			// a shortcut: A and C are already ordered through B (C after B after
			// A); ask for the direct edge as well
			ord := map[string]int{}
			for i, id := range m.Order {
				ord[id] = i
			}
			var chains [][2]string
			for _, cid := range m.LiveIDs() {
				for _, bid := range m.DepList(cid) {
					if m.Items[bid] == nil {
						continue
					}
					for _, aid := range m.DepList(bid) {
						if m.Items[aid] != nil && !m.Items[cid].Deps[aid] {
							chains = append(chains, [2]string{fmt.Sprintf("#%d", ord[aid]), fmt.Sprintf("#%d", ord[cid])})
						}
					}
				}
			}
			if len(chains) > 0 {
				ch := chains[g.R.Intn(len(chains))]
				c.IDs = []string{ch[0], ch[1]}
				return Step{Cmd: &c}
			}
		}
		for i := 0; i < n; i++ {
			c.IDs = append(c.IDs, g.ref(m, pred, g.bad() && g.R.Chance(1, 2)))
		}
		return Step{Cmd: &c}
	case "sequence_rm":
		c := Cmd{Op: "sequence_rm", Human: human}
		// aim at an existing edge most of the time
		var edges [][2]string
		ord := map[string]int{}
		for i, id := range m.Order {
			ord[id] = i
		}
		for _, id := range m.LiveIDs() {
			for _, d := range m.DepList(id) {
				edges = append(edges, [2]string{fmt.Sprintf("#%d", ord[d]), fmt.Sprintf("#%d", ord[id])})
			}
		}
		if len(edges) > 0 && g.R.Chance(3, 4) {
			e := edges[g.R.Intn(len(edges))]
			c.IDs = []string{e[0], e[1]}
			if g.R.Chance(1, 4) {
				// the ids the wrong way round: names an edge that does not exist
				// and must leave the one that does alone - also later, when the
				// item depended upon is finished and pruned
				c.IDs = []string{e[1], e[0]}
				if g.R.Chance(1, 2) {
					g.queue = append(g.queue,
						Step{Cmd: &Cmd{Op: "set", Mode: "json", ID: e[0], State: sp(g.oneOf("done", "canceled")), Agent: "a1@h"}},
						Step{Cmd: &Cmd{Op: "prune", Yes: true}},
						Step{Cmd: &Cmd{Op: "show", ID: e[1]}})
				}
			}
		} else {
			c.IDs = []string{g.ref(m, isTask, g.bad()), g.ref(m, isTask, g.bad())}
		}
		return Step{Cmd: &c}
	case "plan":
		c := Cmd{Op: "plan", Plan: g.planDoc(g.bad() || g.R.Chance(1, 5)), Human: human}
		return Step{Cmd: &c}
	case "prune":
		return Step{Cmd: &Cmd{Op: "prune", Yes: true, Agent: g.oneOf("", "a1@h"), Human: human}}
	case "prune_dry":
		return Step{Cmd: &Cmd{Op: "prune", Human: human}}
	case "compact":
		return Step{Cmd: &Cmd{Op: "compact", Human: human}}
	case "init":
		return Step{Cmd: &Cmd{Op: "init", Human: human}}
	case "list":
		c := Cmd{Op: "list", Human: g.R.Chance(1, 2)}
		switch g.R.Intn(6) {
		case 0:
			c.LAll = true
		case 1:
			c.LReady = true
		case 2:
			c.LEpics = true
		case 3:
			e := g.ref(m, isEpic, g.bad())
			c.Epic = &e
		case 4:
			c.LReady, c.LAll = true, g.R.Chance(1, 2)
			c.LEpics = !c.LAll
		}
		return Step{Cmd: &c}
	case "show":
		return Step{Cmd: &Cmd{Op: "show", ID: g.ref(m, anyItem, g.bad()), Human: g.R.Chance(1, 3)}}
	case "where":
		return Step{Cmd: &Cmd{Op: "where", Human: g.R.Chance(1, 3)}}
	}
	return Step{Cmd: &Cmd{Op: "list"}}
}

func (g *Gen) fileOp() *FileOp {
	g.nfile++
	if g.Links && g.R.Chance(1, 5) {
		switch g.R.Intn(4) {
		case 0:
			return &FileOp{Path: "lnk/tofile", Kind: "symlink", Target: "../r0.txt"}
		case 1:
			return &FileOp{Path: "lnk/todir", Kind: "symlink", Target: "../out"}
		case 2:
			return &FileOp{Path: "lnk/dangling", Kind: "symlink", Target: "nowhere"}
		case 3:
			return &FileOp{Path: "lnk/outside", Kind: "symlink", Target: "/etc/hostname"}
		}
	}
	names := []string{"out/r%d.md", "docs/report%d.txt", "r%d.txt", "deep/er/est/f%d.log", "résumé %d.md", "out/空%d.txt"}
	p := fmt.Sprintf(names[g.R.Intn(len(names))], g.R.Intn(4))
	return &FileOp{Path: p, Kind: "file", Content: fmt.Sprintf("content %d %s\n", g.R.Intn(1000), g.text("body"))}
}

var goodFiles = []string{"out/r0.md", "out/r1.md", "docs/report0.txt", "r0.txt", "r1.txt", "deep/er/est/f0.log", "résumé 0.md", "out/空0.txt",
	// a path long enough that the result event (path, file_url, hash, summary)
	// is longer than the small buffers a tail scan might use
	"deep/er/est/" + strings.Repeat("a-rather-long-directory-name/", 9) + "final-summary-of-measurements.md"}

func (g *Gen) addResult(c *Cmd) {
	p := goodFiles[g.R.Intn(len(goodFiles))]
	if g.Links && g.R.Chance(1, 4) {
		p = g.oneOf("lnk/tofile", "lnk/tofile", "lnk/todir", "lnk/dangling", "lnk/outside", "lnk/todir/r0.md", "out/pipe", "lnk/devnull")
	} else if g.bad() || g.R.Chance(1, 6) {
		p = g.oneOf("/etc/passwd", "../outside.txt", "out/../../x", ".ergo/plans.jsonl", ".ergo", "out", "missing.txt", "", "out/../r0.txt", "./r0.txt", "out//r0.md", ".ergo/../r0.txt", "..hidden/x", "out/..", "a/../../b")
	}
	if p != "" && !strings.HasPrefix(p, "/") && g.R.Chance(1, 3) {
		// the same place spelled differently: only the cleaned path counts
		for k := 1 + g.R.Intn(2); k > 0; k-- {
			switch g.R.Intn(5) {
			case 0:
				p = "./" + p
			case 1:
				p = "out/../" + p
			case 2:
				p = strings.Replace(p, "/", "//", 1)
			case 3:
				p = "docs/../deep/../" + p
			case 4:
				p = "././" + p
			}
		}
	}
	c.RPath = sp(p)
	s := g.text("title")
	if g.bad() {
		s = g.oneOf("", "   ", "two\nlines", strings.Repeat("x", 121), strings.Repeat("é", 100), "cr\rhere")
	}
	c.RSum = sp(s)
}

func (g *Gen) planDoc(invalid bool) *PlanDoc {
	n := 1 + g.R.Intn(6)
	d := &PlanDoc{Title: sp(g.text("title"))}
	if g.R.Chance(1, 2) {
		d.Body = sp(g.text("body"))
	}
	for i := 0; i < n; i++ {
		t := PlanTask{Title: sp(fmt.Sprintf("T%d %s", i, g.text("title")))}
		if g.R.Chance(1, 2) {
			t.Body = sp(g.text("body"))
		}
		// edges to earlier tasks only: a DAG
		for j := 0; j < i; j++ {
			if g.R.Chance(1, 3) {
				t.After = append(t.After, *d.Tasks[j].Title)
			}
		}
		if len(t.After) > 0 && g.R.Chance(1, 6) {
			t.After = append(t.After, t.After[0]) // duplicate entry: deduplicated
		}
		d.Tasks = append(d.Tasks, t)
	}
	// titles are matched exactly: two tasks may differ only in case or in
	// surrounding whitespace, and `after` must hit the right one
	if n >= 2 && g.R.Chance(1, 5) {
		k := g.R.Intn(len(d.Tasks))
		twin := *d.Tasks[k].Title
		switch g.R.Intn(3) {
		case 0:
			twin = twin + " "
		case 1:
			twin = " " + twin
		case 2:
			twin = strings.ToUpper(twin)
		}
		if twin != *d.Tasks[k].Title {
			t := PlanTask{Title: sp(twin)}
			if g.R.Chance(1, 2) {
				t.After = []string{*d.Tasks[g.R.Intn(len(d.Tasks))].Title}
			}
			d.Tasks = append(d.Tasks, t)
			// somebody depends on one of the twins
			j := g.R.Intn(len(d.Tasks) - 1)
			if j != k && len(d.Tasks[j].After) == 0 && !dependsOn(d, k, j) {
				d.Tasks[j].After = append(d.Tasks[j].After, g.oneOf(twin, *d.Tasks[k].Title))
			}
		}
	}
	// list the tasks in an arbitrary order: `after` may name tasks that appear
	// later in the document (a DAG need not be written in dependency order)
	if g.R.Chance(2, 3) {
		for i := len(d.Tasks) - 1; i > 0; i-- {
			j := g.R.Intn(i + 1)
			d.Tasks[i], d.Tasks[j] = d.Tasks[j], d.Tasks[i]
		}
	}
	if invalid {
		switch g.R.Intn(11) {
		case 9, 10:
			// a reference that differs from the title it means only in
			// surrounding whitespace or case: titles are matched exactly, so it
			// names no task
			k := g.R.Intn(len(d.Tasks))
			j := g.R.Intn(len(d.Tasks))
			ref := *d.Tasks[j].Title
			switch g.R.Intn(3) {
			case 0:
				ref += " "
			case 1:
				ref = " " + ref
			case 2:
				ref = strings.ToLower(ref)
				if ref == *d.Tasks[j].Title {
					ref += "\t"
				}
			}
			exists := false
			for _, t := range d.Tasks {
				if *t.Title == ref {
					exists = true
				}
			}
			if !exists {
				d.Tasks[k].After = []string{ref}
				return d
			}
			d.Tasks = nil
			return d
		case 0:
			d.Tasks = nil
		case 1:
			d.Title = sp("  ")
		case 2:
			d.Tasks[g.R.Intn(n)].Title = sp("")
		case 3:
			if n > 1 {
				d.Tasks[1].Title = d.Tasks[0].Title
			} else {
				d.Title = nil
			}
		case 4:
			d.Tasks[g.R.Intn(n)].After = []string{"no such title"}
		case 5:
			k := g.R.Intn(n)
			d.Tasks[k].After = []string{*d.Tasks[k].Title}
		case 6:
			if n > 1 {
				d.Tasks[0].After = append(d.Tasks[0].After, *d.Tasks[n-1].Title)
				d.Tasks[n-1].After = append(d.Tasks[n-1].After, *d.Tasks[0].Title)
			} else {
				d.Tasks[0].Body = sp(" ")
			}
		case 7:
			d.Body = sp("\n")
		case 8:
			d.Tasks[g.R.Intn(n)].After = []string{"  "}
		}
	}
	return d
}

// dependsOn: does task a (index) transitively depend on task b in the document?
func dependsOn(d *PlanDoc, a, b int) bool {
	idx := map[string]int{}
	for i, t := range d.Tasks {
		idx[*t.Title] = i
	}
	seen := map[int]bool{}
	var walk func(int) bool
	walk = func(i int) bool {
		if i == b {
			return true
		}
		if seen[i] {
			return false
		}
		seen[i] = true
		for _, x := range d.Tasks[i].After {
			if j, ok := idx[x]; ok && walk(j) {
				return true
			}
		}
		return false
	}
	return walk(a)
}

// rawVariant replaces the rendered JSON stdin by a hand-made byte string: the
// same document with different spelling (still valid: same meaning), or a
// malformed / multi-value / unknown-key input (must be rejected).
func (g *Gen) rawVariant(c *Cmd) {
	var doc []byte
	if c.Op == "plan" {
		if c.Plan == nil {
			return
		}
		doc = planJSON(c.Plan)
	} else {
		doc = taskInputJSON(*c, func(s string) string { return s })
		if c.Epic != nil && strings.HasPrefix(*c.Epic, "#") {
			return // symbolic reference: resolved only at render time
		}
	}
	pad := func(n int) string { return strings.Repeat(" ", n) }
	second := `{"title":"second value"}`
	if c.Op == "plan" {
		second = `{"title":"second plan","tasks":[{"title":"x"}]}`
	}
	switch g.R.Intn(9) {
	case 0: // same meaning: leading/trailing whitespace and newlines
		s := "\n  " + string(doc) + "\n\n"
		c.Raw = &s
	case 1: // two values, the second starting exactly at a typical read boundary
		for _, b := range []int{512, 1536, 3584, 7680} {
			if len(doc) <= b {
				s := string(doc) + pad(b-len(doc)) + second
				c.Raw, c.RawBad = &s, true
				return
			}
		}
		s := string(doc) + second
		c.Raw, c.RawBad = &s, true
	case 2: // two values at an arbitrary distance
		s := string(doc) + pad(g.R.Intn(700)) + "\n" + second
		c.Raw, c.RawBad = &s, true
	case 3: // trailing junk
		s := string(doc) + pad(g.R.Intn(600)) + g.oneOf("x", "}", "]", "null", "0", "\"s\"")
		c.Raw, c.RawBad = &s, true
	case 4: // truncated
		if len(doc) > 2 {
			s := string(doc[:1+g.R.Intn(len(doc)-1)])
			c.Raw, c.RawBad = &s, true
		}
	case 5: // unknown key
		s := strings.Replace(string(doc), "{", `{"`+g.oneOf("titel", "priority", "Title ", "after", "id")+`":"x",`, 1)
		c.Raw, c.RawBad = &s, true
	case 6: // not an object
		s := g.oneOf("[]", "null", "42", `"just a string"`, "["+string(doc)+"]", "")
		c.Raw, c.RawBad = &s, true
	case 7: // wrong value types
		s := g.oneOf(`{"title":123}`, `{"title":["a"]}`, `{"title":"x","state":null,"body":{}}`, `{"title":true}`)
		if c.Op == "plan" {
			s = g.oneOf(`{"title":"x","tasks":"none"}`, `{"title":"x","tasks":[{"title":"a","after":"a"}]}`, `{"title":"x","tasks":[42]}`)
		}
		c.Raw, c.RawBad = &s, true
	case 8: // same meaning, padded to land on a boundary
		for _, b := range []int{512, 1536} {
			if len(doc) <= b {
				s := string(doc) + pad(b-len(doc)) + "\n"
				c.Raw = &s
				return
			}
		}
	}
}
