package main

// C05: compaction changes nothing a reader can see. Beyond the before/after
// observation equality (DoCmd's generic check for compact), the world is
// forked: the same continuation, with the SAME clock and entropy streams, runs
// on the uncompacted and on the compacted store; replies and observations
// must agree step by step (this includes the order in which claim hands out
// tasks). A second compaction must change neither the observation nor the
// number of recorded events.

import (
	"bytes"
	"fmt"
	"strings"
)

type contResult struct {
	exit   []int
	stdout [][]byte
	obs    []*Obs
}

func (r *Run) runCont(cont []Step) *contResult {
	res := &contResult{}
	for _, st := range cont {
		if st.Cmd == nil {
			r.ExecStep(st)
			continue
		}
		p := r.DoCmd(*st.Cmd)
		res.exit = append(res.exit, p.ExitCode)
		res.stdout = append(res.stdout, bytes.ReplaceAll(p.Stdout, []byte(r.W.Root), []byte("$W")))
		res.obs = append(res.obs, r.Obs)
	}
	return res
}

func countEvents(b []byte) int {
	ls, _ := logLines(b)
	n := 0
	for _, l := range ls {
		if len(bytes.TrimSpace(l)) > 0 {
			n++
		}
	}
	return n
}

func (r *Run) DoFork(st Step) {
	snapA := r.Snapshot()
	r.DoCmd(Cmd{Op: "compact"})
	ev1 := countEvents(r.Obs.LogBytes)
	obs1 := r.Obs
	r.DoCmd(Cmd{Op: "compact"})
	if ev2 := countEvents(r.Obs.LogBytes); ev2 != ev1 {
		r.viol("C05", "compact-not-idempotent", "event-count", "compacting a compacted log changed the number of events: %d -> %d", ev1, ev2)
	}
	if d := SameObs(obs1, r.Obs); len(d) > 0 {
		r.viol("C05", "compact-not-idempotent", "observation", "compacting a compacted log changed the observation: %s", strings.Join(d, "; "))
	}
	// pruned ids stay absent
	for id := range r.M.Pruned {
		if it := r.Obs.Items[id]; it != nil && it.InList {
			r.viol("C05", "pruned-resurrected", "compact", "pruned id %s is listed again after compact", id)
		}
	}
	snapB := r.Snapshot()
	// the continuation always ends by draining the ready set: claim order
	cont := append([]Step{}, st.Cont...)
	nready := len(r.Obs.ReadyIDs)
	for i := 0; i <= nready && i < 12; i++ {
		cont = append(cont, Step{Cmd: &Cmd{Op: "claim", Agent: fmt.Sprintf("drain%d@h", i)}})
	}
	r.Restore(snapA)
	before := len(r.VL.V)
	resA := r.runCont(cont)
	r.VL.V = r.VL.V[:before] // the sequential oracles already judged this path's kind of step elsewhere; keep one copy (side B)
	r.Restore(snapB)
	// same clock and entropy as side A
	clock := snapA.clock
	crng := snapA.crng
	clock.Handed, clock.Advance, clock.Ties, clock.Backs, clock.Leaps = r.W.Clock.Handed, r.W.Clock.Advance, r.W.Clock.Ties, r.W.Clock.Backs, r.W.Clock.Leaps
	*r.W.Clock = clock
	r.W.Clock.rng = &crng
	req, forced := r.W.Rand.Requests, r.W.Rand.Forced
	rs := snapA.rand
	rrng := snapA.rrng
	*r.W.Rand = rs
	r.W.Rand.rng = &rrng
	r.W.Rand.Requests, r.W.Rand.Forced = req, forced
	if snapA.amb != nil {
		a := *snapA.amb
		r.W.Amb.rng = &a
	}
	resB := r.runCont(cont)
	r.W.Count.Inc("c05.forks")
	r.W.Count.Add("c05.continuation_steps", len(resA.exit))
	for i := range resA.exit {
		if i >= len(resB.exit) {
			break
		}
		var c Cmd
		k := 0
		for _, s := range cont {
			if s.Cmd != nil {
				if k == i {
					c = *s.Cmd
				}
				k++
			}
		}
		if resA.exit[i] != resB.exit[i] {
			r.viol("C05", "fork-diverges", c.Op+"|exit", "after compaction %s exits %d, without compaction it exits %d", c.String(), resB.exit[i], resA.exit[i])
			break
		}
		if !bytes.Equal(resA.stdout[i], resB.stdout[i]) {
			cls := "reply"
			if c.Op == "claim" {
				cls = "claim-order"
			}
			r.viol("C05", "fork-diverges", c.Op+"|"+cls, "after compaction %s answers %s, without compaction it answers %s", c.String(), q(string(resB.stdout[i])), q(string(resA.stdout[i])))
			break
		}
		if d := SameObs(resA.obs[i], resB.obs[i]); len(d) > 0 {
			cls := "observation"
			legacy := true
			for _, x := range d {
				if !strings.HasPrefix(x, "item LEG") {
					legacy = false
				}
			}
			if legacy && c.Body != nil {
				// items recorded by an old version (no title; derived on load)
				cls = "legacy-untitled-item-after-body-update"
			}
			r.viol("C05", "fork-diverges", c.Op+"|"+cls, "after %s the compacted and the uncompacted store differ: %s", c.String(), strings.Join(d, "; "))
			break
		}
	}
}

// runForkGenerated: sequential history with differential compact forks.
func runForkGenerated(bin string, seed uint64) *RunReport {
	sc, rng := newScenario("C05", "fork", seed)
	g := NewGen(rng.Uint64())
	n := seqProfile("C05", g, &sc.Config, rng)
	sc.Config.Clock = []string{"fine", "coarse", "second", "leap", "back", "back"}[rng.Intn(6)]
	if rng.Chance(1, 3) {
		sc.Config.StdinChunk = true
	}
	r := NewRun(bin, sc)
	defer r.Close()
	r.InitStore()
	forks := 1 + rng.Intn(2)
	forkAt := map[int]bool{}
	for i := 0; i < forks; i++ {
		forkAt[4+rng.Intn(n-3)] = true
	}
	gc := NewGen(rng.Uint64())
	gc.BadBias, gc.Human = 5, 0
	gc.W["compact"], gc.W["init"], gc.W["where"] = 0, 0, 0
	for i := 0; i < n; i++ {
		if forkAt[i] {
			st := Step{Fork: "compact"}
			k := 3 + rng.Intn(6)
			for j := 0; j < k; j++ {
				st.Cont = append(st.Cont, gc.Next(r.M))
			}
			// items recorded by an old version get their share of later updates
			for idx, id := range r.M.Order {
				if it := r.M.Items[id]; it != nil && strings.HasPrefix(id, "LEG") && rng.Chance(2, 3) {
					ref := fmt.Sprintf("#%d", idx)
					if rng.Chance(1, 2) {
						st.Cont = append(st.Cont, Step{Cmd: &Cmd{Op: "set", ID: ref, Body: sp("Write the docs\nDetails follow\n" + gc.text("body"))}})
					} else {
						st.Cont = append(st.Cont, Step{Cmd: &Cmd{Op: "set", ID: ref, Title: sp(gc.text("title"))}})
					}
				}
			}
			sc.Steps = append(sc.Steps, st)
			r.ExecStep(st)
			continue
		}
		st := g.Next(r.M)
		if rng.Chance(1, 25) {
			st = Step{Disk: &DiskOp{Kind: "tail_fragment", Arg: `{"type":"state","ts":"2030-01-01T00:00:00Z","data":{"id":"` + r.M.Resolve("#0")}}
		}
		if rng.Chance(1, 40) {
			st = Step{Disk: &DiskOp{Kind: "tail_partial_batch"}}
		}
		if rng.Chance(1, 18) {
			st = Step{Disk: &DiskOp{Kind: "legacy_task", Arg: fmt.Sprintf("LEG%03d", rng.Intn(1000)), N: rng.Intn(4)}}
		}
		sc.Steps = append(sc.Steps, st)
		r.ExecStep(st)
	}
	r.Finish()
	return r.Report()
}
