package main

// C05: compaction changes nothing a reader can see. Beyond the before/after
// observation equality (DoCmd's generic check for compact), the world is
// forked: the same continuation, with the SAME clock and entropy streams, runs
// on the uncompacted and on the compacted store; replies and observations
// must agree step by step (this includes the order in which claim hands out
// tasks). A second compaction must change neither the observation nor the
// number of recorded events.

import (
	"bytes"
	"fmt"
	"regexp"
	"sort"
	"strings"
)

type contResult struct {
	exit   []int
	stdout [][]byte
	obs    []*Obs
}

func (r *Run) runCont(cont []Step) *contResult {
	res := &contResult{}
	for _, st := range cont {
		if st.Cmd == nil {
			r.ExecStep(st)
			continue
		}
		p := r.DoCmd(*st.Cmd)
		res.exit = append(res.exit, p.ExitCode)
		res.stdout = append(res.stdout, bytes.ReplaceAll(p.Stdout, []byte(r.W.Root), []byte("$W")))
		res.obs = append(res.obs, r.Obs)
	}
	return res
}

func countEvents(b []byte) int {
	ls, _ := logLines(b)
	n := 0
	for _, l := range ls {
		if len(bytes.TrimSpace(l)) > 0 {
			n++
		}
	}
	return n
}

func (r *Run) DoFork(st Step) {
	snapA := r.Snapshot()
	r.DoCmd(Cmd{Op: "compact"})
	ev1 := countEvents(r.Obs.LogBytes)
	obs1 := r.Obs
	r.DoCmd(Cmd{Op: "compact"})
	if ev2 := countEvents(r.Obs.LogBytes); ev2 != ev1 {
		r.viol("C05", "compact-not-idempotent", "event-count", "compacting a compacted log changed the number of events: %d -> %d", ev1, ev2)
	}
	if d := SameObs(obs1, r.Obs); len(d) > 0 {
		r.viol("C05", "compact-not-idempotent", "observation", "compacting a compacted log changed the observation: %s", strings.Join(d, "; "))
	}
	// pruned ids stay absent
	for id := range r.M.Pruned {
		if it := r.Obs.Items[id]; it != nil && it.InList {
			r.viol("C05", "pruned-resurrected", "compact", "pruned id %s is listed again after compact", id)
		}
	}
	snapB := r.Snapshot()
	// claim order at the fork point itself: no new items exist yet, so the ids
	// handed out must be identical on both stores (timestamps of the claims
	// themselves are normalised: they are minted now)
	var drain []Step
	nready := len(r.Obs.ReadyIDs)
	for i := 0; i <= nready && i < 12; i++ {
		drain = append(drain, Step{Cmd: &Cmd{Op: "claim", Agent: fmt.Sprintf("drain%d@h", i)}})
	}
	{
		r.Restore(snapA)
		nv := len(r.VL.V)
		dA := r.runCont(drain)
		r.VL.V = r.VL.V[:nv]
		r.Restore(snapB)
		dB := r.runCont(drain)
		for i := range dA.exit {
			if i < len(dB.exit) && (dA.exit[i] != dB.exit[i] || !bytes.Equal(normaliseReply(dA.stdout[i]), normaliseReply(dB.stdout[i]))) {
				r.viol("C05", "fork-diverges", "claim|claim-order", "claim #%d of a drain started right after compaction answers %s, on the uncompacted store it answers %s", i+1, q(string(dB.stdout[i])), q(string(dA.stdout[i])))
				break
			}
		}
		r.W.Count.Inc("c05.claim_drains")
	}
	cont := append([]Step{}, st.Cont...)
	r.Restore(snapA)
	before := len(r.VL.V)
	resA := r.runCont(cont)
	r.VL.V = r.VL.V[:before] // the sequential oracles already judged this path's kind of step elsewhere; keep one copy (side B)
	r.Restore(snapB)
	// same clock and entropy as side A
	clock := snapA.clock
	crng := snapA.crng
	clock.Handed, clock.Advance, clock.Ties, clock.Backs, clock.Leaps = r.W.Clock.Handed, r.W.Clock.Advance, r.W.Clock.Ties, r.W.Clock.Backs, r.W.Clock.Leaps
	*r.W.Clock = clock
	r.W.Clock.rng = &crng
	req, forced := r.W.Rand.Requests, r.W.Rand.Forced
	rs := snapA.rand
	rrng := snapA.rrng
	*r.W.Rand = rs
	r.W.Rand.rng = &rrng
	r.W.Rand.Requests, r.W.Rand.Forced = req, forced
	if snapA.amb != nil {
		a := *snapA.amb
		r.W.Amb.rng = &a
	}
	resB := r.runCont(cont)
	r.W.Count.Inc("c05.forks")
	r.W.Count.Add("c05.continuation_steps", len(resA.exit))
	// Ids, uuids and timestamps minted during the continuation may legitimately
	// differ between the two sides when the implementation consumes entropy or
	// clock differently depending on the shape of the log (e.g. a random
	// temp-file name used only when a torn tail has to be repaired). If the
	// strict comparison fails, compare modulo a renaming of the items created
	// during the continuation and modulo timestamp values.
	strict := true
	for i := range resA.exit {
		if i < len(resB.exit) && (resA.exit[i] != resB.exit[i] || !bytes.Equal(resA.stdout[i], resB.stdout[i])) {
			strict = false
		}
	}
	relaxed := false
	origA := append([]*Obs(nil), resA.obs...)
	ren := map[string]string{}
	if !strict {
		ok := true
		for i := range resA.exit {
			if i >= len(resB.exit) {
				break
			}
			a, b := mintedIDs(resA.stdout[i]), mintedIDs(resB.stdout[i])
			if len(a) != len(b) {
				ok = false
				break
			}
			for k := range a {
				ren[b[k]] = a[k]
			}
		}
		if ok {
			relaxed = true
			r.W.Count.Inc("c05.relaxed_comparisons")
			for i := range resB.stdout {
				resB.stdout[i] = normaliseReply(renameAll(resB.stdout[i], ren))
				resA.stdout[i] = normaliseReply(resA.stdout[i])
				resB.obs[i] = renameObs(resB.obs[i], ren)
				resA.obs[i] = stripTimes(resA.obs[i])
				resB.obs[i] = stripTimes(resB.obs[i])
			}
		}
	}
	for i := range resA.exit {
		if i >= len(resB.exit) {
			break
		}
		var c Cmd
		k := 0
		for _, s := range cont {
			if s.Cmd != nil {
				if k == i {
					c = *s.Cmd
				}
				k++
			}
		}
		if resA.exit[i] != resB.exit[i] {
			r.viol("C05", "fork-diverges", c.Op+"|exit", "after compaction %s exits %d, without compaction it exits %d", c.String(), resB.exit[i], resA.exit[i])
			break
		}
		if relaxed && c.IsRead() {
			// listings are ordered by id: after a renaming their byte order is
			// not comparable; the observations below are
		} else if !bytes.Equal(resA.stdout[i], resB.stdout[i]) {
			cls := "reply"
			if c.Op == "claim" {
				cls = "claim-order"
				if relaxed {
					// both sides handed out a task, but not the same one: legitimate
					// only if the two tasks tie on creation time (ids minted during
					// the continuation differ between the sides and break the tie)
					ia, ib := str(asMap(mustJSON(resA.stdout[i])), "id"), str(asMap(mustJSON(resB.stdout[i])), "id")
					if xa, xb := origA[i].Items[ia], origA[i].Items[ib]; ia != "" && ib != "" && xa != nil && xb != nil && xa.CreatedAt == xb.CreatedAt {
						r.W.Count.Inc("c05.tie_divergence_accepted")
						break
					}
				}
			}
			r.viol("C05", "fork-diverges", c.Op+"|"+cls, "after compaction %s answers %s, without compaction it answers %s", c.String(), q(string(resB.stdout[i])), q(string(resA.stdout[i])))
			break
		}
		if d := SameObs(resA.obs[i], resB.obs[i]); len(d) > 0 {
			cls := "observation"
			legacy := true
			for _, x := range d {
				if !strings.HasPrefix(x, "item LEG") {
					legacy = false
				}
			}
			if legacy && c.Body != nil {
				// items recorded by an old version (no title; derived on load)
				cls = "legacy-untitled-item-after-body-update"
			}
			r.viol("C05", "fork-diverges", c.Op+"|"+cls, "after %s the compacted and the uncompacted store differ: %s", c.String(), strings.Join(d, "; "))
			break
		}
	}
}

// runForkGenerated: sequential history with differential compact forks.
func runForkGenerated(bin string, seed uint64) *RunReport {
	sc, rng := newScenario("C05", "fork", seed)
	g := NewGen(rng.Uint64())
	n := seqProfile("C05", g, &sc.Config, rng)
	sc.Config.Clock = []string{"fine", "coarse", "second", "leap", "back", "back"}[rng.Intn(6)]
	if rng.Chance(1, 3) {
		sc.Config.StdinChunk = true
	}
	r := NewRun(bin, sc)
	defer r.Close()
	r.InitStore()
	forks := 1 + rng.Intn(2)
	forkAt := map[int]bool{}
	for i := 0; i < forks; i++ {
		forkAt[4+rng.Intn(n-3)] = true
	}
	gc := NewGen(rng.Uint64())
	gc.BadBias, gc.Human = 5, 0
	gc.W["compact"], gc.W["init"], gc.W["where"] = 0, 0, 0
	for i := 0; i < n; i++ {
		if forkAt[i] {
			st := Step{Fork: "compact"}
			k := 3 + rng.Intn(6)
			for j := 0; j < k; j++ {
				st.Cont = append(st.Cont, gc.Next(r.M))
			}
			// items recorded by an old version get their share of later updates
			for idx, id := range r.M.Order {
				if it := r.M.Items[id]; it != nil && strings.HasPrefix(id, "LEG") && rng.Chance(2, 3) {
					ref := fmt.Sprintf("#%d", idx)
					if rng.Chance(1, 2) {
						st.Cont = append(st.Cont, Step{Cmd: &Cmd{Op: "set", ID: ref, Body: sp("Write the docs\nDetails follow\n" + gc.text("body"))}})
					} else {
						st.Cont = append(st.Cont, Step{Cmd: &Cmd{Op: "set", ID: ref, Title: sp(gc.text("title"))}})
					}
				}
			}
			sc.Steps = append(sc.Steps, st)
			r.ExecStep(st)
			continue
		}
		st := g.Next(r.M)
		if rng.Chance(1, 25) {
			st = Step{Disk: &DiskOp{Kind: "tail_fragment", Arg: `{"type":"state","ts":"2030-01-01T00:00:00Z","data":{"id":"` + r.M.Resolve("#0")}}
		}
		if rng.Chance(1, 40) {
			st = Step{Disk: &DiskOp{Kind: "tail_partial_batch"}}
		}
		if rng.Chance(1, 18) {
			st = Step{Disk: &DiskOp{Kind: "legacy_task", Arg: fmt.Sprintf("LEG%03d", rng.Intn(1000)), N: rng.Intn(4)}}
		}
		sc.Steps = append(sc.Steps, st)
		r.ExecStep(st)
	}
	r.Finish()
	return r.Report()
}

var tsRe = regexp.MustCompile(`[0-9]{4}-[0-9]{2}-[0-9]{2}T[0-9:.]+Z`)
var uuidRe = regexp.MustCompile(`[0-9a-f]{8}-[0-9a-f]{4}-[0-9a-f]{4}-[0-9a-f]{4}-[0-9a-f]{12}`)

// mintedIDs: ids a reply reports as newly created (new: id; plan: epic + tasks), in order.
func mintedIDs(stdout []byte) []string {
	v, err := parseOneJSON(stdout)
	if err != nil {
		return nil
	}
	m := asMap(v)
	var ids []string
	if k := str(m, "kind"); k == "task" || k == "epic" {
		ids = append(ids, str(m, "id"))
	}
	if str(m, "kind") == "plan" {
		ids = append(ids, str(asMap(m["epic"]), "id"))
		for _, t := range asList(m["tasks"]) {
			ids = append(ids, str(asMap(t), "id"))
		}
	}
	return ids
}

func renameAll(b []byte, ren map[string]string) []byte {
	// longest-first, via placeholders, so that chains of renames cannot collide
	var olds []string
	for o := range ren {
		if o != "" {
			olds = append(olds, o)
		}
	}
	sort.Strings(olds)
	s := string(b)
	for i, o := range olds {
		s = strings.ReplaceAll(s, o, fmt.Sprintf("\x00R%d\x00", i))
	}
	for i, o := range olds {
		s = strings.ReplaceAll(s, fmt.Sprintf("\x00R%d\x00", i), ren[o])
	}
	return []byte(s)
}

func normaliseReply(b []byte) []byte {
	b = tsRe.ReplaceAll(b, []byte("<time>"))
	return uuidRe.ReplaceAll(b, []byte("<uuid>"))
}

func renameObs(o *Obs, ren map[string]string) *Obs {
	rn := func(id string) string {
		if n, ok := ren[id]; ok {
			return n
		}
		return id
	}
	n := &Obs{Items: map[string]*ObsItem{}, Failures: o.Failures, LogBytes: o.LogBytes, DirList: o.DirList}
	for id, it := range o.Items {
		c := *it
		c.ID = rn(id)
		c.Epic, c.LEpic = rn(c.Epic), rn(c.LEpic)
		c.Deps, c.RDeps = nil, nil
		for _, d := range it.Deps {
			c.Deps = append(c.Deps, rn(d))
		}
		for _, d := range it.RDeps {
			c.RDeps = append(c.RDeps, rn(d))
		}
		sort.Strings(c.Deps)
		sort.Strings(c.RDeps)
		n.Items[c.ID] = &c
	}
	for _, id := range o.ReadyIDs {
		n.ReadyIDs = append(n.ReadyIDs, rn(id))
	}
	sort.Strings(n.ReadyIDs)
	return n
}

func stripTimes(o *Obs) *Obs {
	n := &Obs{Items: map[string]*ObsItem{}, Failures: o.Failures, LogBytes: o.LogBytes, DirList: o.DirList, ReadyIDs: o.ReadyIDs}
	for id, it := range o.Items {
		c := *it
		c.UUID = ""
		if c.ClaimedAt != "" {
			c.ClaimedAt = "<time>"
		}
		c.CreatedAt, c.UpdatedAt = "", ""
		c.Results = nil
		for _, r := range it.Results {
			r.CreatedAt, r.Mtime = "", ""
			c.Results = append(c.Results, r)
		}
		n.Items[id] = &c
	}
	return n
}

func mustJSON(b []byte) any {
	v, _ := parseOneJSON(b)
	return v
}
