package main

// C12 (and the hand-merged-log part of C09): the log as an arbitrary byte
// string. A valid history is damaged by a storage fault; then every command
// must terminate, exit 0 or 1 without crashing, explain failures (naming file
// and line for a line that is not JSON), answer reads identically every time
// and without touching anything, and successful mutations must only extend
// what was there.

import (
	"bytes"
	"encoding/json"
	"fmt"
	"os"
	"path/filepath"
	"reflect"
	"regexp"
	"strconv"
	"strings"
)

type corruption struct {
	Kind string
	Desc string
}

var corruptKinds = []string{
	"bitflip", "truncate", "dup_line", "swap_lines", "drop_line", "conflict_markers", "junk_line", "unknown_type", "wrong_field_type",
	"bad_timestamp", "dup_create", "binary", "empty", "whitespace", "no_final_newline", "crlf", "bom", "nul_bytes", "json_scalar_line",
	"missing_data", "deep_nesting", "long_line_64k", "extra_fields", "blank_lines", "tombstone_first", "state_before_create", "invalid_utf8",
	"unknown_state", "self_link", "cycle_links", "bad_link_kind", "big_tail_no_newline", "long_line_2m", "huge_line",
}

func splitKeep(b []byte) [][]byte {
	var out [][]byte
	for len(b) > 0 {
		i := bytes.IndexByte(b, '\n')
		if i < 0 {
			out = append(out, b)
			break
		}
		out = append(out, b[:i+1])
		b = b[i+1:]
	}
	return out
}

func joinLines(ls [][]byte) []byte { return bytes.Join(ls, nil) }

// applyCorruption returns the damaged log. pos and arg are drawn by the caller
// and recorded, so that the scenario replays exactly.
func applyCorruption(log []byte, kind string, pos int, arg string, liveID, otherID string) []byte {
	ls := splitKeep(log)
	at := func(n int) int {
		if n <= 0 {
			return 0
		}
		return pos % n
	}
	insert := func(i int, line string) []byte {
		var out [][]byte
		out = append(out, ls[:i]...)
		out = append(out, []byte(line))
		out = append(out, ls[i:]...)
		return joinLines(out)
	}
	ts := "2030-01-01T00:00:00Z"
	switch kind {
	case "bitflip":
		if len(log) == 0 {
			return log
		}
		c := append([]byte(nil), log...)
		i := at(len(c))
		c[i] ^= 1 << (uint(len(arg)) % 8)
		return c
	case "truncate":
		return log[:at(len(log)+1)]
	case "dup_line":
		if len(ls) == 0 {
			return log
		}
		i := at(len(ls))
		return insert(i, string(ls[i]))
	case "swap_lines":
		if len(ls) < 2 {
			return log
		}
		i := at(len(ls) - 1)
		c := append([][]byte(nil), ls...)
		c[i], c[i+1] = c[i+1], c[i]
		return joinLines(c)
	case "drop_line":
		if len(ls) == 0 {
			return log
		}
		i := at(len(ls))
		return joinLines(append(append([][]byte{}, ls[:i]...), ls[i+1:]...))
	case "conflict_markers":
		i := at(len(ls) + 1)
		var out [][]byte
		out = append(out, ls[:i]...)
		out = append(out, []byte("<<<<<<< HEAD\n"))
		if i < len(ls) {
			out = append(out, ls[i])
		}
		out = append(out, []byte("=======\n"))
		if i < len(ls) {
			out = append(out, ls[i])
		}
		out = append(out, []byte(">>>>>>> theirs\n"))
		if i < len(ls) {
			out = append(out, ls[i+1:]...)
		}
		return joinLines(out)
	case "junk_line":
		junk := []string{"not json at all\n", "{\"type\":\n", "}{\n", "{'single':'quotes'}\n", "\x00\x01\x02\n", "{\"type\":\"state\",\"ts\":\"" + ts + "\",\"data\":{\"id\":\"" + liveID + "\"\n"}
		return insert(at(len(ls)+1), junk[len(arg)%len(junk)])
	case "unknown_type":
		return insert(at(len(ls)+1), `{"type":"frobnicate","ts":"`+ts+`","data":{"id":"`+liveID+`","x":[1,2,3]}}`+"\n")
	case "wrong_field_type":
		v := []string{
			`{"type":"state","ts":"` + ts + `","data":{"id":42,"state":"done","ts":"` + ts + `"}}`,
			`{"type":"state","ts":"` + ts + `","data":"oops"}`,
			`{"type":"new_task","ts":"` + ts + `","data":{"id":["a"],"title":{},"created_at":"` + ts + `"}}`,
			`{"type":123,"ts":"` + ts + `","data":{}}`,
			`{"type":"link","ts":"` + ts + `","data":{"from_id":null,"to_id":7,"type":"depends"}}`,
			`{"type":"claim","ts":"` + ts + `","data":{"id":"` + liveID + `","agent_id":{"a":1},"ts":"` + ts + `"}}`,
		}
		return insert(at(len(ls)+1), v[len(arg)%len(v)]+"\n")
	case "bad_timestamp":
		v := []string{"yesterday", "", "2030-13-45T99:99:99Z", "0", "2030-01-01", "9999999999-01-01T00:00:00Z"}
		t := v[len(arg)%len(v)]
		return insert(at(len(ls)+1), `{"type":"state","ts":"`+t+`","data":{"id":"`+liveID+`","state":"done","ts":"`+t+`"}}`+"\n")
	case "dup_create":
		for _, l := range ls {
			if bytes.Contains(l, []byte(`"type":"new_task"`)) || bytes.Contains(l, []byte(`"type":"new_epic"`)) {
				return joinLines(append(append([][]byte{}, ls...), l))
			}
		}
		return log
	case "binary":
		b := make([]byte, 300+pos%500)
		r := NewSplitMix(uint64(pos) + 7)
		for i := range b {
			b[i] = byte(r.Uint64())
		}
		return b
	case "empty":
		return nil
	case "whitespace":
		return []byte("  \n\t\n \n")
	case "no_final_newline":
		return bytes.TrimRight(log, "\n")
	case "crlf":
		return bytes.ReplaceAll(log, []byte("\n"), []byte("\r\n"))
	case "bom":
		return append([]byte{0xEF, 0xBB, 0xBF}, log...)
	case "nul_bytes":
		i := at(len(log) + 1)
		return append(append(append([]byte{}, log[:i]...), 0, 0, 0), log[i:]...)
	case "json_scalar_line":
		v := []string{"123\n", "null\n", "[]\n", "\"string\"\n", "true\n", "{}\n", "[{\"type\":\"state\"}]\n"}
		return insert(at(len(ls)+1), v[len(arg)%len(v)])
	case "missing_data":
		v := []string{`{"type":"state","ts":"` + ts + `"}`, `{"type":"new_task"}`, `{"ts":"` + ts + `","data":{}}`, `{"type":"tombstone","ts":"` + ts + `","data":{}}`, `{"type":"result","ts":"` + ts + `","data":{"task_id":"` + liveID + `"}}`}
		return insert(at(len(ls)+1), v[len(arg)%len(v)]+"\n")
	case "deep_nesting":
		d := 2000 + pos%3000
		return insert(at(len(ls)+1), `{"type":"body","ts":"`+ts+`","data":`+strings.Repeat("[", d)+strings.Repeat("]", d)+"}\n")
	case "long_line_64k":
		n := 65536 - 200 + pos%400
		return insert(at(len(ls)+1), `{"type":"body","ts":"`+ts+`","data":{"id":"`+liveID+`","body":"`+strings.Repeat("x", n)+`","ts":"`+ts+`"}}`+"\n")
	case "long_line_2m":
		// a valid event of a couple of MB: well inside what the format admits
		n := 2*1024*1024 + pos%4096
		return insert(at(len(ls)+1), `{"type":"body","ts":"`+ts+`","data":{"id":"`+liveID+`","body":"`+strings.Repeat("w", n)+`","ts":"`+ts+`"}}`+"\n")
	case "huge_line":
		n := 10*1024*1024 + 1000
		return insert(at(len(ls)+1), `{"type":"body","ts":"`+ts+`","data":{"id":"`+liveID+`","body":"`+strings.Repeat("y", n)+`","ts":"`+ts+`"}}`+"\n")
	case "big_tail_no_newline":
		// a complete, valid final event of several KB that lacks its newline
		// (hand edit, merge, or a write cut before its very last byte)
		n := []int{4000, 4200, 9000, 70000}[pos%4]
		base := bytes.TrimRight(log, "\n")
		if len(base) > 0 {
			base = append(base, '\n')
		}
		return append(base, []byte(`{"type":"body","ts":"`+ts+`","data":{"id":"`+liveID+`","body":"`+strings.Repeat("z", n)+`","ts":"`+ts+`"}}`)...)
	case "extra_fields":
		return insert(at(len(ls)+1), `{"type":"state","ts":"`+ts+`","data":{"id":"`+liveID+`","state":"blocked","ts":"`+ts+`","future":true},"v":2}`+"\n")
	case "blank_lines":
		return insert(at(len(ls)+1), "\n\n   \n")
	case "tombstone_first":
		return append([]byte(`{"type":"tombstone","ts":"`+ts+`","data":{"id":"`+liveID+`","ts":"`+ts+`"}}`+"\n"), log...)
	case "state_before_create":
		return append([]byte(`{"type":"state","ts":"`+ts+`","data":{"id":"`+liveID+`","state":"done","ts":"`+ts+`"}}`+"\n"), log...)
	case "invalid_utf8":
		return insert(at(len(ls)+1), `{"type":"title","ts":"`+ts+`","data":{"id":"`+liveID+`","title":"bad `+"\xff\xfe\xc0"+` bytes","ts":"`+ts+`"}}`+"\n")
	case "unknown_state":
		return insert(at(len(ls)+1), `{"type":"state","ts":"`+ts+`","data":{"id":"`+liveID+`","state":"limbo","ts":"`+ts+`"}}`+"\n")
	case "self_link":
		return insert(len(ls), `{"type":"link","ts":"`+ts+`","data":{"from_id":"`+liveID+`","to_id":"`+liveID+`","type":"depends"}}`+"\n")
	case "cycle_links":
		return insert(len(ls), `{"type":"link","ts":"`+ts+`","data":{"from_id":"`+liveID+`","to_id":"`+otherID+`","type":"depends"}}`+"\n"+`{"type":"link","ts":"`+ts+`","data":{"from_id":"`+otherID+`","to_id":"`+liveID+`","type":"depends"}}`+"\n")
	case "bad_link_kind":
		return insert(len(ls), `{"type":"link","ts":"`+ts+`","data":{"from_id":"`+liveID+`","to_id":"NOSUCH","type":"depends"}}`+"\n")
	}
	return log
}

// firstInvalidLine: 1-based number of the first line that is not JSON and
// would be read as a line (a non-JSON unterminated last line is tolerated as a
// torn tail, so it does not count).
func firstInvalidLine(log []byte) int {
	ls := splitKeep(log)
	for i, l := range ls {
		t := bytes.TrimSpace(l)
		if len(t) == 0 {
			continue
		}
		var v any
		if json.Unmarshal(t, &v) == nil {
			continue
		}
		if i == len(ls)-1 && !bytes.HasSuffix(l, []byte("\n")) {
			continue
		}
		return i + 1
	}
	return 0
}

// namesEarlierBadLine: the message names a line before the first non-JSON line,
// and that line, though JSON, is not an event record (not an object, or an
// object whose type/ts are not strings or whose data is not an object): the
// command may stop there first, the statement only fixes what is named when the
// complaint is about a non-JSON line.
func namesEarlierBadLine(stderr []byte, lp string, log []byte, inv int) bool {
	m := regexp.MustCompile(regexp.QuoteMeta(lp) + `:(\d+):`).FindSubmatch(stderr)
	if m == nil {
		return false
	}
	n, _ := strconv.Atoi(string(m[1]))
	ls := splitKeep(log)
	if n < 1 || n >= inv || n > len(ls) {
		return false
	}
	if len(bytes.TrimSpace(ls[n-1])) == 0 {
		return false // blank lines are skipped, never complained about
	}
	var obj map[string]json.RawMessage
	if json.Unmarshal(bytes.TrimSpace(ls[n-1]), &obj) != nil {
		return true
	}
	for _, k := range []string{"type", "ts"} {
		if raw, ok := obj[k]; ok {
			var s string
			if json.Unmarshal(raw, &s) != nil {
				return true
			}
		}
	}
	if raw, ok := obj["data"]; ok {
		var d map[string]any
		if json.Unmarshal(raw, &d) != nil {
			return true
		}
		for k, v := range d {
			switch k {
			case "id", "uuid", "epic_id", "state", "title", "body", "agent_id", "from_id", "to_id", "type", "created_at", "updated_at", "ts":
				if _, ok := v.(string); !ok && v != nil {
					return true
				}
			}
		}
	}
	return false
}

type eventTriple struct {
	Type string
	TS   string
	Data any
}

func parseTriples(log []byte) []eventTriple {
	var out []eventTriple
	for _, l := range splitKeep(log) {
		t := bytes.TrimSpace(l)
		if len(t) == 0 {
			continue
		}
		var m map[string]any
		if json.Unmarshal(t, &m) != nil {
			continue
		}
		ty, _ := m["type"].(string)
		ts, _ := m["ts"].(string)
		out = append(out, eventTriple{ty, ts, m["data"]})
	}
	return out
}

func (r *Run) corruptCommands(m *Model) []Cmd {
	task, epic, other := "ZZZZZZ", "ZZZZZZ", "ZZZZZZ"
	for _, t := range m.Tasks() {
		if task == "ZZZZZZ" {
			task = t.ID
		} else if other == "ZZZZZZ" {
			other = t.ID
		}
	}
	for _, e := range m.Epics() {
		epic = e.ID
		break
	}
	cmds := []Cmd{
		{Op: "list"}, {Op: "list", LAll: true}, {Op: "list", Human: true}, {Op: "list", Human: true, LAll: true}, {Op: "list", LReady: true}, {Op: "list", LEpics: true},
		{Op: "list", Human: true, LReady: true}, {Op: "list", Human: true, Epic: &epic},
		{Op: "show", ID: task}, {Op: "show", ID: task, Human: true}, {Op: "show", ID: epic}, {Op: "show", ID: epic, Human: true},
		{Op: "where"}, {Op: "prune"}, {Op: "prune", Human: true}, {Op: "quickstart", Human: true},
		{Op: "new_task", Title: sp("after damage")}, {Op: "set", ID: task, State: sp("blocked")}, {Op: "claim", Agent: "z@h"}, {Op: "claim_id", ID: other, Agent: "z@h"},
		{Op: "sequence", IDs: []string{task, other}}, {Op: "plan", Plan: &PlanDoc{Title: sp("p"), Tasks: []PlanTask{{Title: sp("a")}, {Title: sp("b"), After: []string{"a"}}}}},
		{Op: "prune", Yes: true}, {Op: "compact"}, {Op: "init"}, {Op: "new_epic", Title: sp("e after damage")},
	}
	return cmds
}

// judgeCorrupt runs one command on the damaged store and applies C12's oracles.
func (r *Run) judgeCorrupt(c Cmd, kind string, damaged []byte, lp string) {
	r.Cmds++
	shape := c.Shape()
	inv := firstInvalidLine(damaged)
	_, before, dirBefore := storeFiles(r.W.Proj)
	var p *Proc
	func() {
		defer func() {
			if x := recover(); x != nil {
				if _, ok := x.(WatchdogSpin); ok {
					r.viol("C12", "non-termination", c.Op+"|"+kind, "%s did not terminate on a log damaged by %s", shape, kind)
					return
				}
				panic(x)
			}
		}()
		p = r.W.RunOne(r.spec(c))
	}()
	if p == nil {
		return
	}
	r.checkProcess(c, p)
	_, after, dirAfter := storeFiles(r.W.Proj)
	readsLog := c.Op != "where" && c.Op != "quickstart" && c.Op != "init"
	if p.ExitCode != 0 && readsLog && inv > 0 && !bytes.Contains(p.Stderr, []byte("too long")) {
		want := fmt.Sprintf("%s:%d:", lp, inv)
		if !bytes.Contains(p.Stderr, []byte(want)) && !bytes.Contains(p.Stderr, []byte(fmt.Sprintf("%s:", lp))) {
			r.viol("C12", "error-names-no-file", c.Op+"|"+kind, "%s failed on a log whose line %d is not JSON, but the message names no file: %s", shape, inv, tail(p.Stderr))
		} else if !bytes.Contains(p.Stderr, []byte(want)) && !namesEarlierBadLine(p.Stderr, lp, damaged, inv) {
			r.viol("C12", "error-names-wrong-line", c.Op+"|"+kind, "%s failed on a log whose first non-JSON line is %d, but the message does not say %q: %s", shape, inv, want, tail(p.Stderr))
		}
	}
	if c.IsRead() {
		if !bytes.Equal(before, after) || dirListSansLock(dirBefore) != dirListSansLock(dirAfter) {
			r.viol("C12", "read-purity", c.Op+"-files|"+kind, "read-only %s changed .ergo on a damaged log (%s): %s -> %s", shape, kind, dirBefore, dirAfter)
		}
		for _, e := range p.VisibleEvents() {
			if e.IsMutating() && filepath.Base(e.Path) != "lock" {
				r.viol("C12", "read-purity", c.Op+"-"+e.Op+"|"+kind, "read-only %s performed %s on a damaged log", shape, e.String())
			}
		}
		// determinism: a second process gives byte-identical answers
		for rep := 0; rep < 3; rep++ {
			so, se, code := r.W.RunPlain(r.spec(c).Argv, nil, r.cwdFor(c))
			if code != p.ExitCode || !bytes.Equal(so, p.Stdout) || !bytes.Equal(se, p.Stderr) {
				r.viol("C12", "nondeterministic-read", c.Op+"|@"+kind, "%s answered differently on the same log (%s): exit %d/%d stdout %s / %s stderr %s / %s", shape, kind, p.ExitCode, code, q(string(p.Stdout)), q(string(so)), q(string(p.Stderr)), q(string(se)))
				break
			}
		}
		r.W.Count.Inc("c12.reads_judged")
		return
	}
	r.W.Count.Inc("c12.mutations_judged")
	if p.ExitCode != 0 {
		if !bytes.Equal(before, after) {
			r.viol("C12", "failed-but-wrote", c.Op+"|"+kind, "%s failed on a damaged log (%s) yet changed it (%d -> %d bytes)", shape, kind, len(before), len(after))
		}
		return
	}
	if c.Op == "compact" || c.Op == "init" {
		return
	}
	// history only grows: earlier events remain, in order, unchanged
	bt, at := parseTriples(before), parseTriples(after)
	// an unterminated non-JSON tail is not an event
	if len(at) < len(bt) {
		r.viol("C12", "history-prefix", c.Op+"|"+kind, "%s on a damaged log (%s) shrank history from %d to %d events", shape, kind, len(bt), len(at))
		return
	}
	for i := range bt {
		if !reflect.DeepEqual(bt[i], at[i]) {
			r.viol("C12", "history-prefix", c.Op+"|"+kind, "%s on a damaged log (%s) altered event %d: %v -> %v", shape, kind, i+1, bt[i], at[i])
			return
		}
	}
	r.Effects++
}

// DoCorrupt executes a recorded corruption step: damage the log, then run the
// command set, each command against the same damaged bytes.
func (r *Run) DoCorrupt(d *DiskOp) {
	lp := r.logPath()
	orig, _ := os.ReadFile(lp)
	live, other := "ZZZZZZ", "ZZZZZY"
	ts := r.M.Tasks()
	if len(ts) > 0 {
		live = ts[0].ID
	}
	if len(ts) > 1 {
		other = ts[1].ID
	}
	damaged := orig
	for i, kind := range strings.Split(d.Arg, "+") {
		// several damages may be combined (e.g. blank lines, then a junk line)
		damaged = applyCorruption(damaged, kind, d.Pos+i*7919, strings.Repeat("x", d.N), live, other)
	}
	r.W.Count.Inc("fault.log_corrupt." + d.Arg)
	r.Faults++
	cmds := r.corruptCommands(r.M)
	for _, c := range cmds {
		if err := os.WriteFile(lp, damaged, 0o644); err != nil {
			harnessf("write damaged log: %v", err)
		}
		os.Remove(lp + ".tmp")
		nv := len(r.VL.V)
		r.judgeCorrupt(c, d.Arg, damaged, lp)
		hung := false
		for _, v := range r.VL.V[nv:] {
			if v.Oracle == "non-termination" {
				hung = true
			}
		}
		if hung {
			// one command that never ends is the finding; every further command
			// on this log would cost another watchdog period
			break
		}
	}
	os.WriteFile(lp, orig, 0o644)
	r.Obs = nil
}

func runCorruptGenerated(bin string, seed uint64, thorough bool) *RunReport {
	sc, rng := newScenario("C12", "corrupt", seed)
	g := NewGen(rng.Uint64())
	g.BadBias, g.Human = 3, 0
	g.W["list"], g.W["show"], g.W["where"], g.W["prune_dry"] = 0, 0, 0, 0
	g.W["prune"] = 6
	r := NewRun(bin, sc)
	defer r.Close()
	r.W.Timeout = 30e9
	r.InitStore()
	n := 6 + rng.Intn(14)
	for i := 0; i < n; i++ {
		st := g.Next(r.M)
		sc.Steps = append(sc.Steps, st)
		r.ExecStep(st)
	}
	r.VL.V = nil
	r.seenSig = map[string]bool{}
	nv := 3
	for i := 0; i < nv; i++ {
		kinds := corruptKinds[:len(corruptKinds)-1]
		kind := kinds[rng.Intn(len(kinds))]
		if thorough && rng.Chance(1, 40) {
			kind = "huge_line"
		}
		if rng.Chance(1, 4) {
			// two damages in one log
			second := []string{"blank_lines", "junk_line", "conflict_markers", "dup_line", "crlf", "unknown_type", "no_final_newline"}[rng.Intn(7)]
			if rng.Chance(1, 2) {
				kind = second + "+" + kind
			} else {
				kind = kind + "+" + second
			}
		}
		st := Step{Disk: &DiskOp{Kind: "corrupt", Arg: kind, Pos: rng.Intn(1 << 20), N: rng.Intn(16)}}
		sc.Steps = append(sc.Steps, st)
		r.ExecStep(st)
	}
	rep := r.Report()
	rep.NonTrivial = true
	return rep
}
