package main

// Driver: runs a property's exploration plan on all cores, aggregates
// evidence, minimises and replays violations, applies the known-findings file.

import (
	"crypto/sha256"
	"encoding/json"
	"flag"
	"fmt"
	"os"
	"os/exec"
	"path/filepath"
	"regexp"
	"runtime"
	"sort"
	"strings"
	"sync"
	"time"
)

// verifDir is the directory that holds bin/simcheck (normally /verif; a
// snapshot made by `vp run` works from its own copy).
var verifDir = func() string {
	if exe, err := os.Executable(); err == nil {
		if d := filepath.Dir(filepath.Dir(exe)); d != "" {
			if _, err := os.Stat(filepath.Join(d, "simkernel", "verifsim_linux.go")); err == nil {
				return d
			}
		}
	}
	return "/verif"
}()

// repoDir is /repo; SIM_REPO overrides it only for runs against seeded defects that
// were written for an earlier commit of /repo (tools/seeded.sh uses a scratch worktree then).
var repoDir = func() string {
	if v := os.Getenv("SIM_REPO"); v != "" {
		return v
	}
	return "/repo"
}()

// A Mode is one way of exploring a property (sequential refinement runs,
// concurrent batches, crash sweeps, …). Each mode maps a seed to one report.
type Mode struct {
	Name   string
	Quick  int // runs in the quick tier
	Deep   int // runs in the thorough tier
	Run    func(bin string, seed uint64) *RunReport
	Replay func(bin string, sc *Scenario) *RunReport
}

type PropPlan struct {
	ID        string
	Level     string // exploration | fault_enumeration
	Modes     []Mode
	Rule      string
	Assume    []string
	NonTrivOK func(rep *RunReport) bool
}

type KnownFinding struct {
	Property string `json:"property"`
	Match    string `json:"match"` // regular expression over "<oracle>:<signature>"
	What     string `json:"what"`
	Replay   string `json:"replay,omitempty"`
}

type KnownFile struct {
	Findings []KnownFinding `json:"findings"`
	Fixed    []string       `json:"fixed"`
}

func loadKnown() *KnownFile {
	var k KnownFile
	b, err := os.ReadFile(filepath.Join(verifDir, "known_findings.json"))
	if err != nil {
		return &k
	}
	if err := json.Unmarshal(b, &k); err != nil {
		fmt.Fprintln(os.Stderr, "known_findings.json:", err)
		os.Exit(2)
	}
	return &k
}

func (k *KnownFile) match(v Violation) *KnownFinding {
	for i := range k.Findings {
		f := &k.Findings[i]
		if f.Property != v.Prop {
			continue
		}
		if ok, _ := regexp.MatchString(f.Match, v.Sig); ok {
			return f
		}
	}
	return nil
}

type agg struct {
	mu      sync.Mutex
	execs   int
	runs    int
	cmds    int
	effects int
	faults  int
	simNs   int64
	count   Counters
	shapes  map[string]bool
	states  map[string]bool
	ilv     map[string]bool
	digests map[string]bool
	nontriv map[string]bool
	samples []any
	foreign map[string]int
	harness []string
	viol    map[string]*found // coarse sig -> first scenario
	perMode map[string]int
	extra   map[string]int
}

type found struct {
	v     Violation
	sc    *Scenario
	mode  string
	count int
	idx   int
	seed  uint64
}

func coarseSig(v Violation) string {
	return v.Prop + "|" + v.Oracle + "|" + coarse(strings.TrimPrefix(v.Sig, v.Oracle+":"))
}

func (a *agg) add(prop, mode string, idx int, seed uint64, rep *RunReport) {
	a.mu.Lock()
	defer a.mu.Unlock()
	a.runs++
	a.perMode[mode]++
	if rep.Harness != "" {
		if len(a.harness) < 5 {
			a.harness = append(a.harness, rep.Harness)
		}
		return
	}
	a.execs += rep.Execs
	a.cmds += rep.Cmds
	a.effects += rep.Effects
	a.faults += rep.Faults
	a.simNs += rep.SimNs
	for k, v := range rep.Count {
		a.count[k] += v
	}
	for k, v := range rep.Extra {
		a.extra[k] += v
	}
	for k := range rep.Shapes {
		a.shapes[k] = true
	}
	for k := range rep.States {
		a.states[k] = true
	}
	a.ilv[rep.Ilv] = true
	for k := range rep.IlvSet {
		a.ilv[k] = true
	}
	if rep.NonTrivial {
		a.nontriv[rep.Digest] = true
	}
	a.digests[rep.Digest] = true
	if len(a.samples) < 3 && rep.Sc != nil && rep.NonTrivial {
		a.samples = append(a.samples, sampleOf(rep.Sc))
	}
	for vi, v := range rep.V {
		sc := rep.Sc
		if rep.PerViolScen != nil && vi < len(rep.PerViolScen) && sc != nil {
			sc = rep.Sc.Clone()
			sc.Steps = rep.PerViolScen[vi]
		}
		if v.Prop != prop {
			a.foreign[v.Prop+" "+v.Oracle]++
			if os.Getenv("SIM_FOREIGN") != "" && a.foreign[v.Prop+" "+v.Oracle] <= 2 {
				fmt.Printf("foreign: %s\n", oneLine(v.String(), 700))
			}
			continue
		}
		k := coarseSig(v)
		f := a.viol[k]
		if f == nil {
			a.viol[k] = &found{v: v, sc: sc, mode: mode, count: 1, idx: idx, seed: seed}
		} else {
			f.count++
			if idx < f.idx {
				f.v, f.sc, f.mode, f.idx, f.seed = v, sc, mode, idx, seed
			}
		}
	}
}

func sampleOf(sc *Scenario) any {
	c := sc.Clone()
	if len(c.Steps) > 12 {
		c.Steps = c.Steps[:12]
		c.Steps = append(c.Steps, Step{Note: "… truncated"})
	}
	return c
}

func runMain(args []string) {
	fs := flag.NewFlagSet("run", flag.ExitOnError)
	prop := fs.String("prop", "", "property id")
	tier := fs.String("tier", "quick", "quick|thorough")
	workers := fs.Int("workers", runtime.NumCPU(), "")
	seed := fs.Uint64("seed", envSeed(), "")
	scale := fs.Float64("scale", 1, "multiply run counts")
	noMin := fs.Bool("nomin", false, "skip minimisation")
	buildDir := fs.String("builddir", "", "build output directory (default <verif>/build)")
	fs.Parse(args)
	if t := os.Getenv("VERIF_TIER"); t != "" && *tier == "" {
		*tier = t
	}
	thoroughTier = *tier == "thorough"
	plan := planFor(*prop)
	if plan == nil {
		fmt.Fprintf(os.Stderr, "no check for property %q\n", *prop)
		os.Exit(2)
	}
	fmt.Printf("simcheck: property=%s tier=%s VERIF_SEED=%d workers=%d\n", *prop, *tier, *seed, *workers)
	start := time.Now()
	if *buildDir == "" {
		*buildDir = filepath.Join(verifDir, "build")
	}
	bin, err := buildErgo(repoDir, verifDir, *buildDir)
	if err != nil {
		fmt.Fprintln(os.Stderr, "build failed:", err)
		os.Exit(2)
	}
	currentBin = bin
	a := &agg{count: Counters{}, shapes: map[string]bool{}, states: map[string]bool{}, ilv: map[string]bool{}, digests: map[string]bool{}, nontriv: map[string]bool{},
		foreign: map[string]int{}, viol: map[string]*found{}, perMode: map[string]int{}, extra: map[string]int{}}
	type job struct {
		mode *Mode
		idx  int
		seed uint64
	}
	var jobs []job
	for mi := range plan.Modes {
		m := &plan.Modes[mi]
		n := m.Quick
		if *tier == "thorough" {
			n = m.Deep
		}
		n = int(float64(n) * *scale)
		for i := 0; i < n; i++ {
			jobs = append(jobs, job{m, i, mix64(*seed, hashStr(*prop+"/"+m.Name)+uint64(i)*0x9e3779b1)})
		}
	}
	ch := make(chan job)
	var wg sync.WaitGroup
	for w := 0; w < *workers; w++ {
		wg.Add(1)
		go func() {
			defer wg.Done()
			for j := range ch {
				rep := safeRun(func() *RunReport { return j.mode.Run(bin, j.seed) })
				a.add(*prop, j.mode.Name, j.idx, j.seed, rep)
			}
		}()
	}
	for _, j := range jobs {
		ch <- j
	}
	close(ch)
	wg.Wait()
	wall := time.Since(start).Seconds()

	if len(a.harness) > 0 {
		for _, h := range a.harness {
			fmt.Fprintln(os.Stderr, "HARNESS:", h)
		}
		writeEvidence(plan, *tier, *seed, a, wall, 0, nil)
		os.Exit(2)
	}

	// triage violations
	known := loadKnown()
	var ks []string
	for k := range a.viol {
		ks = append(ks, k)
	}
	sort.Strings(ks)
	exit := 0
	nviol := 0
	knownSeen := map[string]bool{}
	var vioSamples []any
	for _, k := range ks {
		f := a.viol[k]
		if kf := known.match(f.v); kf != nil {
			if !knownSeen[kf.What] {
				knownSeen[kf.What] = true
				fmt.Printf("KNOWN-FINDING: property=%s %s (seen %d×, e.g. %s)\n", *prop, kf.What, f.count, oneLine(f.v.Detail, 200))
			}
			continue
		}
		nviol++
		sc := f.sc.Clone()
		mode := modeByName(plan, f.mode)
		if !*noMin && mode != nil && mode.Replay != nil {
			sc = minimise(bin, mode, sc, f.v, 60*time.Second)
		}
		v := f.v
		sc.Violation = &v
		path := saveReplay(*prop, sc)
		// confirm in a fresh process
		confirmed := confirmReplay(path)
		fmt.Printf("violation: %s\n", oneLine(f.v.String(), 1200))
		if !confirmed && mode != nil {
			// The recorded schedule did not reproduce it. If the sample (same
			// seed, regenerated) shows the same violation class again, the
			// nondeterminism sits inside the simulated process (e.g. its
			// garbage collector deciding when a finalizer closes a descriptor):
			// the violation is real and is reported, with that caveat.
			for attempt := 0; attempt < 2 && !confirmed; attempt++ {
				rep := safeRun(func() *RunReport { return mode.Run(bin, f.seed) })
				confirmed = hasViolation(rep, coarseSig(f.v), *prop)
			}
			if confirmed {
				fmt.Printf("note: %s does not reproduce from its recorded schedule but does from its seed (%d): a source of nondeterminism inside the simulated ergo process takes part\n", path, f.seed)
			}
		}
		if !confirmed {
			fmt.Printf("note: replay of %s in a fresh process did not reproduce the same violation class; reporting as harness trouble\n", path)
			exit = 2
			continue
		}
		fmt.Printf("VIOLATION property=%s replay=%s\n", *prop, path)
		vioSamples = append(vioSamples, map[string]any{"violation": f.v, "replay": path})
		if exit == 0 {
			exit = 1
		}
	}
	// a listed known finding that no longer shows up is fine (and silent)
	writeEvidence(plan, *tier, *seed, a, wall, nviol, vioSamples)
	fmt.Printf("simcheck: property=%s runs=%d executions=%d commands=%d violations=%d known=%d foreign=%v wall=%.1fs\n", *prop, a.runs, a.execs, a.cmds, nviol, len(knownSeen), a.foreign, wall)
	os.Exit(exit)
}

func oneLine(s string, n int) string {
	s = strings.ReplaceAll(s, "\n", "\\n")
	if len(s) > n {
		s = s[:n] + "…"
	}
	return s
}

func modeByName(p *PropPlan, name string) *Mode {
	for i := range p.Modes {
		if p.Modes[i].Name == name {
			return &p.Modes[i]
		}
	}
	return nil
}

func saveReplay(prop string, sc *Scenario) string {
	dir := filepath.Join(verifDir, "replays", prop)
	os.MkdirAll(dir, 0o755)
	b, _ := json.Marshal(sc)
	h := sha256.Sum256(b)
	path := filepath.Join(dir, fmt.Sprintf("%s-%x.json", sc.Kind, h[:6]))
	if err := sc.Save(path); err != nil {
		fmt.Fprintln(os.Stderr, "cannot save replay:", err)
		os.Exit(2)
	}
	return path
}

func confirmReplay(path string) bool {
	self, _ := os.Executable()
	// up to three attempts: violations that depend on the simulated process's
	// own hash-seed (a nondeterministic read is exactly that) reproduce with
	// high but not full probability per attempt
	for attempt := 0; attempt < 3; attempt++ {
		cmd := exec.Command(self, "replay", "--quiet", "--nobuild", path)
		cmd.Env = append(os.Environ(), "SIM_BIN="+currentBin)
		out, err := cmd.CombinedOutput()
		if ee, ok := err.(*exec.ExitError); ok && ee.ExitCode() == 1 && strings.Contains(string(out), "REPRODUCED") {
			return true
		}
	}
	return false
}

// replayMain: simcheck replay [--quiet] <file>; exit 1 + VIOLATION line when
// the recorded violation reproduces, 0 when the scenario passes.
func replayMain(args []string) {
	fs := flag.NewFlagSet("replay", flag.ExitOnError)
	quiet := fs.Bool("quiet", false, "")
	nobuild := fs.Bool("nobuild", false, "use the existing build")
	trace := fs.Bool("trace", false, "print the event trace")
	fs.Parse(args)
	if fs.NArg() != 1 {
		fmt.Fprintln(os.Stderr, "usage: simcheck replay <file>")
		os.Exit(2)
	}
	sc, err := LoadScenario(fs.Arg(0))
	if err != nil {
		fmt.Fprintln(os.Stderr, err)
		os.Exit(2)
	}
	bin := filepath.Join(verifDir, "build", "ergo")
	if v := os.Getenv("SIM_BIN"); v != "" {
		bin = v
	}
	if !*nobuild {
		bin, err = buildErgo(repoDir, verifDir, filepath.Join(verifDir, "build"))
		if err != nil {
			fmt.Fprintln(os.Stderr, "build failed:", err)
			os.Exit(2)
		}
	}
	plan := planFor(sc.Prop)
	if plan == nil {
		fmt.Fprintln(os.Stderr, "unknown property in replay file")
		os.Exit(2)
	}
	var mode *Mode
	for i := range plan.Modes {
		if plan.Modes[i].Name == sc.Kind || mode == nil && plan.Modes[i].Replay != nil {
			mode = &plan.Modes[i]
		}
	}
	traceReplay = *trace
	if *trace {
		traceFile = os.Stdout
	}
	rep1 := safeRun(func() *RunReport { return mode.Replay(bin, sc) })
	rep2 := safeRun(func() *RunReport { return mode.Replay(bin, sc) })
	if rep1.Harness != "" {
		fmt.Fprintln(os.Stderr, "HARNESS:", rep1.Harness)
		os.Exit(2)
	}
	if rep1.Digest != rep2.Digest {
		fmt.Fprintf(os.Stderr, "replay is not deterministic: digests %s vs %s\n", rep1.Digest, rep2.Digest)
		os.Exit(2)
	}
	want := ""
	if sc.Violation != nil {
		want = coarseSig(*sc.Violation)
	}
	hit := false
	for _, v := range rep1.V {
		if v.Prop != sc.Prop {
			continue
		}
		if !*quiet {
			fmt.Println("violation:", oneLine(v.String(), 2000))
		}
		if want == "" || coarseSig(v) == want {
			hit = true
		}
	}
	if hit {
		fmt.Printf("REPRODUCED digest=%s\nVIOLATION property=%s replay=%s\n", rep1.Digest, sc.Prop, fs.Arg(0))
		os.Exit(1)
	}
	fmt.Printf("replay passed (no %s violation) digest=%s\n", sc.Prop, rep1.Digest)
	os.Exit(0)
}

var traceReplay bool
var currentBin string

// ---------------------------------------------------------------- minimise

func hasViolation(rep *RunReport, want string, prop string) bool {
	if rep == nil || rep.Harness != "" {
		return false
	}
	for _, v := range rep.V {
		if v.Prop == prop && coarseSig(v) == want {
			return true
		}
	}
	return false
}

// minimise: delta debugging on the step list, then per-command simplification,
// while the same violation signature persists.
func minimise(bin string, mode *Mode, sc *Scenario, v Violation, budget time.Duration) *Scenario {
	deadline := time.Now().Add(budget)
	want := coarseSig(v)
	try := func(c *Scenario) bool {
		if time.Now().After(deadline) {
			return false
		}
		rep := safeRun(func() *RunReport { return mode.Replay(bin, c) })
		return hasViolation(rep, want, sc.Prop)
	}
	if !try(sc) {
		return sc // not reproducible as recorded: keep as is (confirmReplay will say so)
	}
	cur := sc.Clone()
	// cut everything after the violating step
	if v.Step > 0 && v.Step < len(cur.Steps) {
		c := cur.Clone()
		// Step numbers count commands, not steps; be conservative: try truncations
		for n := len(c.Steps) - 1; n >= 1; n-- {
			t := cur.Clone()
			t.Steps = t.Steps[:n]
			if try(t) {
				cur = t
			} else {
				break
			}
		}
	}
	// ddmin over steps
	n := 2
	for len(cur.Steps) >= 2 && time.Now().Before(deadline) {
		chunk := (len(cur.Steps) + n - 1) / n
		reduced := false
		for start := 0; start < len(cur.Steps); start += chunk {
			end := start + chunk
			if end > len(cur.Steps) {
				end = len(cur.Steps)
			}
			c := cur.Clone()
			c.Steps = append(append([]Step{}, cur.Steps[:start]...), cur.Steps[end:]...)
			if len(c.Steps) == 0 {
				continue
			}
			if try(c) {
				cur = c
				if n > 2 {
					n--
				}
				reduced = true
				break
			}
		}
		if !reduced {
			if chunk == 1 {
				break
			}
			n *= 2
			if n > len(cur.Steps) {
				n = len(cur.Steps)
			}
		}
	}
	// concurrent batches: drop members (remapping the recorded decisions), then
	// shorten the decision list (when it runs out the current process keeps
	// running, else the lowest-numbered one: fewer recorded choices = fewer
	// preemptions)
	for i := range cur.Steps {
		if cur.Steps[i].Batch == nil {
			continue
		}
		for m := len(cur.Steps[i].Batch.Cmds) - 1; m >= 0 && len(cur.Steps[i].Batch.Cmds) > 1; m-- {
			c := cur.Clone()
			b := c.Steps[i].Batch
			b.Cmds = append(append([]Cmd{}, b.Cmds[:m]...), b.Cmds[m+1:]...)
			var dec []int
			for _, x := range b.Decisions {
				if x == m {
					continue
				}
				if x > m {
					x--
				}
				dec = append(dec, x)
			}
			b.Decisions = dec
			if try(c) {
				cur = c
			}
		}
		lo, hi := 0, len(cur.Steps[i].Batch.Decisions)
		for lo < hi && time.Now().Before(deadline) {
			mid := (lo + hi) / 2
			c := cur.Clone()
			c.Steps[i].Batch.Decisions = c.Steps[i].Batch.Decisions[:mid]
			if try(c) {
				hi = mid
				cur = c
			} else {
				lo = mid + 1
			}
		}
	}
	// simplify commands: drop optional fields one at a time
	for i := range cur.Steps {
		if cur.Steps[i].Cmd == nil {
			continue
		}
		for _, field := range []string{"Body", "Title", "Epic", "State", "Claim", "RPath", "Agent", "Mode", "Human", "Sub", "DirMode"} {
			c := cur.Clone()
			cm := c.Steps[i].Cmd
			changed := true
			switch field {
			case "Body":
				changed = cm.Body != nil && cm.Mode != "bodystdin"
				cm.Body = nil
			case "Title":
				changed = cm.Title != nil && cm.Op == "set"
				if changed {
					cm.Title = nil
				}
			case "Epic":
				changed = cm.Epic != nil
				cm.Epic = nil
			case "State":
				changed = cm.State != nil
				cm.State = nil
			case "Claim":
				changed = cm.Claim != nil
				cm.Claim = nil
			case "RPath":
				changed = cm.RPath != nil
				cm.RPath, cm.RSum = nil, nil
			case "Agent":
				changed = cm.Agent != ""
				cm.Agent = ""
			case "Mode":
				changed = cm.Mode == "flags"
				if changed {
					cm.Mode = "json"
				}
			case "Human":
				changed = cm.Human
				cm.Human = false
			case "Sub":
				changed = cm.Sub != ""
				cm.Sub = ""
			case "DirMode":
				changed = cm.DirMode != ""
				cm.DirMode = ""
			}
			if changed && try(c) {
				cur = c
			}
		}
	}
	// calm the environment if possible
	for _, f := range []func(*Config){
		func(c *Config) { c.ShortWriteDen = 0 },
		func(c *Config) { c.ShortReadDen = 0 },
		func(c *Config) { c.StdinChunk = false },
		func(c *Config) { c.Clock = "fine" },
		func(c *Config) { c.Layout = "" },
	} {
		c := cur.Clone()
		f(&c.Config)
		if try(c) {
			cur = c
		}
	}
	return cur
}

// ---------------------------------------------------------------- evidence

// totalFaults: injected faults of all kinds that actually fired (clock
// anomalies are listed separately under faults_fired and not counted here).
func totalFaults(counted int, fired map[string]int) int {
	n := 0
	for k, v := range fired {
		if !strings.HasPrefix(k, "clock_") {
			n += v
		}
	}
	if counted > n {
		return counted
	}
	return n
}

func writeEvidence(plan *PropPlan, tier string, seed uint64, a *agg, wall float64, nviol int, vioSamples []any) {
	faultFired := map[string]int{}
	probes := map[string]int{}
	sched := map[string]int{}
	other := map[string]int{}
	for k, v := range a.count {
		switch {
		case strings.HasPrefix(k, "fault."):
			faultFired[strings.TrimPrefix(k, "fault.")] = v
		case strings.HasPrefix(k, "clock.ties"), strings.HasPrefix(k, "clock.backs"), strings.HasPrefix(k, "clock.leaps"):
			faultFired[strings.Replace(k, ".", "_", 1)] = v
		case strings.HasPrefix(k, "probe."):
			probes[strings.TrimPrefix(k, "probe.")] = v
		case strings.HasPrefix(k, "sched."):
			sched[strings.TrimPrefix(k, "sched.")] = v
		default:
			other[k] = v
		}
	}
	samples := a.samples
	if len(samples) == 0 {
		samples = []any{"no non-trivial scenario was produced in this run"}
	}
	for _, s := range vioSamples {
		samples = append(samples, s)
	}
	perHour := 0.0
	if wall > 0 {
		perHour = float64(a.runs) / wall * 3600
	}
	cov := map[string]any{
		"evaluations":                       a.execs,
		"distinct_nontrivial":               len(a.nontriv),
		"rule":                              plan.Rule,
		"samples":                           samples,
		"runs":                              a.runs,
		"runs_per_mode":                     a.perMode,
		"runs_per_hour":                     int(perHour),
		"seeds_per_hour":                    int(perHour),
		"commands":                          a.cmds,
		"mutations_in_effect":               a.effects,
		"simulated_time_s":                  float64(a.simNs) / 1e9,
		"faults_fired":                      faultFired,
		"faults_fired_total":                totalFaults(a.faults, faultFired),
		"scheduler":                         sched,
		"distinct_interleavings":            len(a.ilv),
		"distinct_model_states":             len(a.states),
		"distinct_command_shape_x_prestate": len(a.shapes),
		"distinct_trace_digests":            len(a.digests),
		"probes":                            probes,
		"counters":                          other,
		"extra":                             a.extra,
		"foreign_violations":                a.foreign,
		"components": map[string]string{
			"cmd/ergo + internal/ergo + cobra/pflag":    "real, built from /repo's working tree",
			"Go runtime and std":                        "real; syscall wrappers, time.Now and crypto/rand.Read carry the interposer (build-time overlay)",
			"kernel VFS/tmpfs, flock, O_APPEND, rename": "real",
			"process scheduling":                        "simulated (controller releases one process at a time at each .ergo system call)",
			"wall clock, entropy":                       "simulated (seeded streams)",
			"crash / short I/O / errno / disk damage":   "injected",
			"power loss, network":                       "not modelled / none exists",
		},
		"exhaustive": false,
	}
	ev := map[string]any{
		"property_id": plan.ID,
		"tier":        tier,
		"seed":        int64(seed & 0x7fffffffffffffff),
		"level":       plan.Level,
		"coverage":    cov,
		"assumptions": plan.Assume,
		"wall_s":      wall,
		"violations":  nviol,
	}
	if os.Getenv("SIM_REPO") != "" {
		// a run against a scratch copy (seeded defects, benign changes) is not
		// evidence about /repo: keep it out of /verif/evidence
		dir := filepath.Join(os.TempDir(), "simcheck-scratch-evidence")
		os.MkdirAll(dir, 0o755)
		sb, _ := json.MarshalIndent(ev, "", " ")
		os.WriteFile(filepath.Join(dir, plan.ID+".json"), append(sb, '\n'), 0o644)
		return
	}
	os.MkdirAll(filepath.Join(verifDir, "evidence"), 0o755)
	b, _ := json.MarshalIndent(ev, "", " ")
	if err := os.WriteFile(filepath.Join(verifDir, "evidence", plan.ID+".json"), append(b, '\n'), 0o644); err != nil {
		fmt.Fprintln(os.Stderr, "cannot write evidence:", err)
		os.Exit(2)
	}
}
