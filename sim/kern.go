package main

// The simulation kernel: real ergo processes, parked at every hooked system
// call, released one at a time by the controller. See DESIGN.md section 2.

import (
	"bufio"
	"bytes"
	"crypto/sha256"
	"encoding/base32"
	"encoding/hex"
	"fmt"
	"hash"
	"io"
	"os"
	"os/exec"
	"path/filepath"
	"strconv"
	"strings"
	"sync/atomic"
	"syscall"
	"time"
)

// HarnessError is raised (panic) for trouble that is the machinery's, not
// ergo's: protocol errors, watchdog expiry in an unmodelled place, I/O errors
// of the controller. It maps to exit code 2, never to a VIOLATION.
type HarnessError struct{ Msg string }

func (h HarnessError) Error() string { return "harness: " + h.Msg }

func harnessf(format string, a ...any) { panic(HarnessError{fmt.Sprintf(format, a...)}) }

// ---------------------------------------------------------------- splitmix

type SplitMix struct{ s uint64 }

func NewSplitMix(seed uint64) *SplitMix { return &SplitMix{s: seed} }

func (r *SplitMix) Uint64() uint64 {
	r.s += 0x9e3779b97f4a7c15
	z := r.s
	z = (z ^ (z >> 30)) * 0xbf58476d1ce4e5b9
	z = (z ^ (z >> 27)) * 0x94d049bb133111eb
	return z ^ (z >> 31)
}

func (r *SplitMix) Intn(n int) int {
	if n <= 0 {
		return 0
	}
	return int(r.Uint64() % uint64(n))
}

func (r *SplitMix) Chance(num, den int) bool { return r.Intn(den) < num }

func (r *SplitMix) Fork(tag uint64) *SplitMix {
	return NewSplitMix(r.Uint64() ^ (tag * 0x2545f4914f6cdd1d))
}

func mix64(a, b uint64) uint64 {
	m := NewSplitMix(a ^ (b+0x632be59bd9b4e019)*0x9e3779b97f4a7c15)
	return m.Uint64()
}

// ---------------------------------------------------------------- clock

// Clock is the only wall clock simulated ergo processes can read.
type Clock struct {
	Now     int64 // ns since epoch
	Profile string
	rng     *SplitMix
	Handed  int
	Advance int64 // total simulated time handed out (sum of |steps|)
	Ties    int
	Backs   int
	Leaps   int
	Frozen  bool
}

const clockEpoch = int64(1893456000) * 1e9 // 2030-01-01T00:00:00Z

func NewClock(profile string, seed uint64) *Clock {
	c := &Clock{Profile: profile, rng: NewSplitMix(seed)}
	c.Now = clockEpoch + int64(c.rng.Intn(86400*365))*1e9 + int64(c.rng.Intn(1e9))
	return c
}

func (c *Clock) Next() int64 {
	v := c.Now
	c.Handed++
	if c.Frozen {
		return v
	}
	var step int64
	switch c.Profile {
	case "coarse": // coarse clock: consecutive reads often equal
		if c.rng.Chance(1, 2) {
			step = 0
		} else {
			step = int64(1+c.rng.Intn(4)) * 1e6
		}
	case "leap":
		if c.rng.Chance(1, 6) {
			step = int64(1+c.rng.Intn(24*400)) * 3600 * 1e9
			c.Leaps++
		} else {
			step = int64(1 + c.rng.Intn(1e6))
		}
	case "back": // occasional backward step (NTP correction)
		if c.rng.Chance(1, 8) {
			step = -int64(1+c.rng.Intn(5000)) * 1e6
		} else {
			step = int64(1 + c.rng.Intn(1e7))
		}
	case "second": // whole-second resolution with ties
		if c.rng.Chance(1, 3) {
			step = 0
		} else {
			step = int64(1+c.rng.Intn(3)) * 1e9
		}
	default: // fine
		step = int64(1 + c.rng.Intn(1e6))
	}
	if step == 0 {
		c.Ties++
	}
	if step < 0 {
		c.Backs++
		c.Advance -= step
	} else {
		c.Advance += step
	}
	c.Now += step
	return v
}

// ---------------------------------------------------------------- entropy

// RandStream is the only entropy simulated ergo processes can read.
type RandStream struct {
	rng      *SplitMix
	forced4  [][]byte // queue of forced replies for 4-byte (short id) requests
	Requests int
	Forced   int
	Minted   []string // short ids implied by every 4-byte reply, in order
}

func NewRandStream(seed uint64) *RandStream { return &RandStream{rng: NewSplitMix(seed)} }

var b32 = base32.StdEncoding.WithPadding(base32.NoPadding)

func idFromBytes(b []byte) string { return strings.ToUpper(b32.EncodeToString(b)[:6]) }

// bytesForID inverts idFromBytes (30 significant bits; the last two are zero).
func bytesForID(id string) []byte {
	dec, err := b32.DecodeString(id + "A")
	if err != nil || len(dec) < 4 {
		harnessf("bytesForID(%q): %v", id, err)
	}
	out := dec[:4]
	out[3] &^= 3
	if idFromBytes(out) != id {
		harnessf("bytesForID(%q) does not round-trip", id)
	}
	return out
}

// ForceID makes the next short-id draw produce id.
func (r *RandStream) ForceID(id string) { r.forced4 = append(r.forced4, bytesForID(id)) }

func (r *RandStream) Read(n int) []byte {
	r.Requests++
	if n == 4 && len(r.forced4) > 0 {
		b := r.forced4[0]
		r.forced4 = r.forced4[1:]
		r.Forced++
		r.Minted = append(r.Minted, idFromBytes(b))
		return b
	}
	b := make([]byte, n)
	for i := 0; i < n; i += 8 {
		v := r.rng.Uint64()
		for j := 0; j < 8 && i+j < n; j++ {
			b[i+j] = byte(v >> (8 * j))
		}
	}
	if n == 4 {
		r.Minted = append(r.Minted, idFromBytes(b))
	}
	return b
}

// ---------------------------------------------------------------- events

type Ev struct {
	Seq     int // global sequence number at PRE
	Proc    int
	K       int // per-process ordinal among visible events, -1 if invisible
	Op      string
	Fd      int
	Flags   int
	Len     int
	Off     int64
	Path    string // for fd-based calls: the path the fd was opened with
	Path2   string
	Visible bool
	Act     string // go | err:N | short:N | torn:N | kill
	Res     int
	Errno   int
	Posted  bool
	PostSeq int
}

func (e *Ev) String() string {
	s := fmt.Sprintf("p%d#%d %s", e.Proc, e.K, e.Op)
	if e.Path != "" {
		s += " " + e.Path
	}
	if e.Path2 != "" {
		s += " -> " + e.Path2
	}
	if e.Op == "openat" || e.Op == "flock" {
		s += fmt.Sprintf(" flags=%#x", e.Flags)
	}
	if e.Len > 0 {
		s += fmt.Sprintf(" len=%d", e.Len)
	}
	if e.Act != "" && e.Act != "go" {
		s += " [" + e.Act + "]"
	}
	if e.Posted {
		s += fmt.Sprintf(" = %d", e.Res)
		if e.Errno != 0 {
			s += fmt.Sprintf(" errno=%d", e.Errno)
		}
	}
	return s
}

// IsMutating says whether a call changes file-system state.
func (e *Ev) IsMutating() bool {
	switch e.Op {
	case "write", "pwrite", "rename", "unlink", "mkdir", "ftruncate", "truncate", "link", "symlink", "fchmod", "chmod":
		return true
	case "openat":
		return e.Flags&(syscall.O_CREAT|syscall.O_TRUNC) != 0
	}
	return false
}

// ---------------------------------------------------------------- processes

type ProcSpec struct {
	Argv  []string // without the binary
	Stdin []byte   // nil: /dev/null (a character device, i.e. "not piped")
	Cwd   string   // absolute
	Label string
	Env   []string
}

const (
	psNew = iota
	psParked
	psRunning
	psExited
	psKilled
)

type Proc struct {
	Idx      int
	Spec     ProcSpec
	cmd      *exec.Cmd
	toChild  *os.File
	fromFile *os.File
	from     *bufio.Reader
	fds      map[int]string
	Pend     *Ev // parked visible event awaiting a verdict
	cur      *Ev
	NVis     int
	State    int
	ExitCode int
	Signaled bool
	Stdout   []byte
	Stderr   []byte
	Events   []*Ev
	NowVals  []int64
	outPath  string
	errPath  string
	inPath   string
	// lock bookkeeping
	BlockedOnLock string // lock path this process is waiting for ("" if none)
	InvokeSeq     int
	ReturnSeq     int
	TornKilled    bool
	KilledAtK     int // visible ordinal before which it was killed (-1: not killed)
	lastCPU       float64
}

func (p *Proc) Alive() bool { return p.State == psParked || p.State == psRunning || p.State == psNew }

// VisibleEvents returns the process's visible events in order.
func (p *Proc) VisibleEvents() []*Ev {
	var out []*Ev
	for _, e := range p.Events {
		if e.Visible {
			out = append(out, e)
		}
	}
	return out
}

// ---------------------------------------------------------------- world

type Ambient struct {
	ShortWriteDen int // 1/den of log writes are cut short (0 = never)
	ShortReadDen  int
	StdinChunk    bool
	rng           *SplitMix
}

type Counters map[string]int

func (c Counters) Inc(k string)        { c[k]++ }
func (c Counters) Add(k string, n int) { c[k] += n }

type World struct {
	Root    string // private directory on tmpfs
	Proj    string // project root inside Root
	Bin     string
	Clock   *Clock
	Rand    *RandStream
	Amb     Ambient
	Seq     int
	digest  hash.Hash
	Count   Counters
	nio     int
	Timeout time.Duration
	// Rule, when set, decides the verdict for a parked visible call that no
	// addressed fault claims (faults addressed by kind of call, not by ordinal)
	Rule func(p *Proc, e *Ev) (act string, ok bool)
	// lock holders: lock path -> set of proc idx (pointer identity via map)
	holders      map[string]map[*Proc]int // value: fd
	OnPost       func(w *World, p *Proc, e *Ev)
	OnExit       func(w *World, p *Proc)
	TraceOn      bool
	TraceLn      []string
	IlvHash      hash.Hash // hash of the sequence of context switches (proc label, op class)
	lastRun      int
	Blocks       int // number of blocking lock waits observed
	GoMax        string
	killAtStdout bool // crash sweeps: kill the process when it is about to write its reply
}

var worldCounter atomic.Int64
var traceFile *os.File

func NewWorld(bin string, clock *Clock, rnd *RandStream) *World {
	wn := worldCounter.Add(1)
	base := "/dev/shm"
	if st, err := os.Stat(base); err != nil || !st.IsDir() {
		base = os.TempDir()
	}
	root := filepath.Join(base, fmt.Sprintf("ergosim.%d.%d", os.Getpid(), wn))
	os.RemoveAll(root)
	if err := os.MkdirAll(filepath.Join(root, "proj"), 0o755); err != nil {
		// /dev/shm present but not usable: fall back to the temp directory
		root = filepath.Join(os.TempDir(), fmt.Sprintf("ergosim.%d.%d", os.Getpid(), wn))
		os.RemoveAll(root)
		if err := os.MkdirAll(filepath.Join(root, "proj"), 0o755); err != nil {
			harnessf("mkdir world: %v", err)
		}
	}
	os.MkdirAll(filepath.Join(root, "io"), 0o755)
	return &World{
		Root: root, Proj: filepath.Join(root, "proj"), Bin: bin, Clock: clock, Rand: rnd,
		digest: sha256.New(), IlvHash: sha256.New(), Count: Counters{}, Timeout: 20 * time.Second,
		holders: map[string]map[*Proc]int{}, lastRun: -1, GoMax: "1",
	}
}

func (w *World) Destroy() {
	if w.Root != "" && strings.Contains(w.Root, "ergosim.") {
		os.RemoveAll(w.Root)
	}
}

func (w *World) Digest() string { return hex.EncodeToString(w.digest.Sum(nil)) }

func (w *World) note(format string, a ...any) {
	s := fmt.Sprintf(format, a...)
	w.digest.Write([]byte(s))
	w.digest.Write([]byte{'\n'})
	if w.TraceOn {
		w.TraceLn = append(w.TraceLn, s)
	}
	if traceFile != nil {
		fmt.Fprintf(traceFile, "%s %s\n", filepath.Base(w.Root), s)
	}
}

func unesc(s string) string {
	if s == "-" {
		return ""
	}
	if !strings.Contains(s, "%") {
		return s
	}
	var b strings.Builder
	for i := 0; i < len(s); i++ {
		if s[i] == '%' && i+3 <= len(s) {
			v, err := strconv.ParseUint(s[i+1:i+3], 16, 8)
			if err == nil {
				b.WriteByte(byte(v))
				i += 2
				continue
			}
		}
		b.WriteByte(s[i])
	}
	return b.String()
}

// rel makes world paths short and machine-independent for traces.
func (w *World) rel(p string) string {
	if strings.HasPrefix(p, w.Root) {
		return "$W" + p[len(w.Root):]
	}
	return p
}

func (w *World) isVisible(e *Ev) bool {
	if e.Op == "flock" {
		return true
	}
	if e.Fd >= 0 && e.Fd <= 2 && e.Path == "" {
		return false
	}
	for _, p := range []string{e.Path, e.Path2} {
		if p == "" {
			continue
		}
		if strings.Contains(p, "/.ergo/") || strings.HasSuffix(p, "/.ergo") || p == ".ergo" || strings.HasPrefix(p, ".ergo/") {
			return true
		}
	}
	return false
}

// Start launches the process and advances it to its first visible event.
func (w *World) Start(idx int, spec ProcSpec) *Proc {
	p := &Proc{Idx: idx, Spec: spec, fds: map[int]string{}, KilledAtK: -1}
	w.nio++
	stem := filepath.Join(w.Root, "io", fmt.Sprintf("%d", w.nio))
	p.outPath, p.errPath, p.inPath = stem+".out", stem+".err", stem+".in"
	var stdin *os.File
	var err error
	if spec.Stdin == nil {
		stdin, err = os.Open("/dev/null")
	} else {
		if err = os.WriteFile(p.inPath, spec.Stdin, 0o644); err == nil {
			stdin, err = os.Open(p.inPath)
		}
	}
	if err != nil {
		harnessf("stdin: %v", err)
	}
	defer stdin.Close()
	stdout, err := os.Create(p.outPath)
	if err != nil {
		harnessf("stdout: %v", err)
	}
	defer stdout.Close()
	stderr, err := os.Create(p.errPath)
	if err != nil {
		harnessf("stderr: %v", err)
	}
	defer stderr.Close()
	// control pipes: child reads replies on fd 3, writes requests on fd 4
	cr, cw, err := os.Pipe() // controller -> child
	if err != nil {
		harnessf("pipe: %v", err)
	}
	pr, pw, err := os.Pipe() // child -> controller
	if err != nil {
		harnessf("pipe: %v", err)
	}
	cmd := exec.Command(w.Bin, spec.Argv...)
	cmd.Dir = spec.Cwd
	cmd.Stdin, cmd.Stdout, cmd.Stderr = stdin, stdout, stderr
	cmd.ExtraFiles = []*os.File{cr, pw}
	cmd.Env = append([]string{"ERGOSIM_CTL=3,4", "HOME=/nonexistent", "PATH=/usr/bin:/bin", "GOMAXPROCS=" + w.GoMax, "PWD=" + spec.Cwd, "TERM=dumb", "COLUMNS=100"}, spec.Env...)
	if err := cmd.Start(); err != nil {
		harnessf("start %s: %v (argv %q)", w.Bin, err, spec.Argv)
	}
	cr.Close()
	pw.Close()
	p.cmd, p.toChild, p.fromFile = cmd, cw, pr
	p.from = bufio.NewReaderSize(pr, 1<<16)
	p.State = psRunning
	w.Seq++
	p.InvokeSeq = w.Seq
	w.note("start p%d %s", idx, strings.ReplaceAll(strings.Join(spec.Argv, " "), w.Root, "$W"))
	w.advance(p)
	return p
}

func (w *World) reply(p *Proc, s string) {
	if _, err := p.toChild.WriteString(s + "\n"); err != nil {
		// the child may have died on its own (e.g. panic) — find out at next read
		w.note("reply-failed p%d", p.Idx)
	}
}

func (w *World) readLine(p *Proc) (string, bool) {
	acc := ""
	for waits := 0; ; waits++ {
		p.fromFile.SetReadDeadline(time.Now().Add(w.Timeout))
		line, err := p.from.ReadString('\n')
		acc += line
		if err != nil {
			if err == io.EOF && acc == "" {
				return "", false
			}
			if os.IsTimeout(err) {
				w.watchdog(p, waits)
				continue // the process got little CPU (loaded machine): keep waiting
			}
			if err == io.EOF {
				return "", false
			}
			harnessf("control read p%d: %v", p.Idx, err)
		}
		return strings.TrimRight(acc, "\n"), true
	}
}

// cpuSeconds: user+system CPU time a process has consumed so far.
func cpuSeconds(pid int) float64 {
	st, _ := os.ReadFile(fmt.Sprintf("/proc/%d/stat", pid))
	i := bytes.LastIndexByte(st, ')')
	if i < 0 {
		return -1
	}
	fs := strings.Fields(string(st[i+2:]))
	if len(fs) < 13 {
		return -1
	}
	var ut, stt float64
	fmt.Sscan(fs[11], &ut)
	fmt.Sscan(fs[12], &stt)
	return (ut + stt) / 100 // USER_HZ is 100 on Linux
}

// WatchdogSpin is raised when a simulated process burns CPU without reaching
// a system call for Timeout: an ergo defect (non-termination), not a harness one.
type WatchdogSpin struct {
	Proc    int
	Argv    []string
	Blocked bool // asleep for the whole period inside open(2): a FIFO or device given as a file
}

// blockedInOpen: is some thread of the process asleep inside open/openat? Such a
// call returns at once for every regular file, directory and the harness's own
// pipes (those are inherited descriptors, never opened); it blocks only on a
// FIFO or a device. A command that sits there for a whole watchdog period does
// not terminate.
func blockedInOpen(pid int) bool {
	tasks, _ := os.ReadDir(fmt.Sprintf("/proc/%d/task", pid))
	for _, t := range tasks {
		b, err := os.ReadFile(fmt.Sprintf("/proc/%d/task/%s/syscall", pid, t.Name()))
		if err != nil {
			continue
		}
		f := strings.Fields(string(b))
		if len(f) > 0 && (f[0] == "257" || f[0] == "2") {
			return true
		}
	}
	return false
}

// spinCPU: CPU seconds without reaching a visible system call that count as
// non-termination. Measured in CPU time of the process, not wall time, so a
// loaded machine cannot turn a slow run into a violation.
const spinCPU = 15.0

func (w *World) watchdog(p *Proc, waits int) {
	// three cases: the process burns CPU without reaching a visible call
	// (non-termination: ergo's defect), it makes progress slowly because the
	// machine is loaded (keep waiting), or it consumes nothing at all (asleep
	// in a call the interposer does not model: the harness's trouble). The
	// state letter in /proc/<pid>/stat is the main thread's only, so CPU time
	// of the whole process is what decides.
	pid := p.cmd.Process.Pid
	cpu := cpuSeconds(pid)
	if cpu >= 0 && cpu < spinCPU && cpu > p.lastCPU+0.05 && waits < 30 {
		p.lastCPU = cpu
		w.Count.Inc("watchdog.extended")
		return
	}
	blocked := cpu < spinCPU && blockedInOpen(pid)
	p.cmd.Process.Kill()
	p.cmd.Wait()
	p.State = psKilled
	if cpu >= spinCPU || blocked {
		panic(WatchdogSpin{Proc: p.Idx, Argv: p.Spec.Argv, Blocked: blocked})
	}
	harnessf("watchdog: p%d (%v) silent for %v x %d after %.1fs CPU (unmodelled blocking call?)", p.Idx, p.Spec.Argv, w.Timeout, waits+1, cpu)
}

func (w *World) reap(p *Proc) {
	err := p.cmd.Wait()
	p.toChild.Close()
	p.fromFile.Close()
	p.ExitCode = 0
	if err != nil {
		if ee, ok := err.(*exec.ExitError); ok {
			ws := ee.Sys().(syscall.WaitStatus)
			if ws.Signaled() {
				p.Signaled = true
				p.ExitCode = 128 + int(ws.Signal())
			} else {
				p.ExitCode = ws.ExitStatus()
			}
		} else {
			harnessf("wait p%d: %v", p.Idx, err)
		}
	}
	if p.State != psKilled {
		p.State = psExited
	}
	p.Stdout, _ = os.ReadFile(p.outPath)
	p.Stderr, _ = os.ReadFile(p.errPath)
	os.Remove(p.outPath)
	os.Remove(p.errPath)
	os.Remove(p.inPath)
	w.releaseAll(p)
	w.Seq++
	p.ReturnSeq = w.Seq
	if p.ExitCode == 97 {
		harnessf("interposer died in p%d: %s", p.Idx, p.Stderr)
	}
	if w.OnExit != nil {
		w.OnExit(w, p)
	}
	norm := func(b []byte) []byte { return bytes.ReplaceAll(b, []byte(w.Root), []byte("$W")) }
	// stderr text is not part of the trace digest: ergo builds validation
	// messages by ranging over a Go map, so their part order varies from
	// process to process (its presence is recorded; stdout is hashed in full)
	w.note("exit p%d code=%d out=%x err=%v", p.Idx, p.ExitCode, sha256.Sum256(norm(p.Stdout)), len(bytes.TrimSpace(p.Stderr)) > 0)
}

// Kill terminates a parked (or running) process with SIGKILL.
func (w *World) Kill(p *Proc) {
	if !p.Alive() {
		return
	}
	if p.Pend != nil {
		p.KilledAtK = p.Pend.K
		p.Pend.Act = "kill"
		w.note("kill p%d before #%d %s", p.Idx, p.Pend.K, p.Pend.Op)
		p.Pend = nil
	} else {
		w.note("kill p%d", p.Idx)
	}
	p.State = psKilled
	p.cmd.Process.Kill()
	w.reap(p)
	w.Count.Inc("fault.kill")
}

func (w *World) releaseAll(p *Proc) {
	for path, hs := range w.holders {
		delete(hs, p)
		if len(hs) == 0 {
			delete(w.holders, path)
		}
	}
}

func (w *World) lockFree(path string, except *Proc) bool {
	for h := range w.holders[path] {
		if h != except {
			return false
		}
	}
	return true
}

func (w *World) parsePre(p *Proc, line string) *Ev {
	f := strings.Split(line, " ")
	if len(f) != 8 {
		harnessf("bad PRE from p%d: %q", p.Idx, line)
	}
	e := &Ev{Proc: p.Idx, Op: f[1], K: -1}
	e.Fd, _ = strconv.Atoi(f[2])
	e.Flags, _ = strconv.Atoi(f[3])
	e.Len, _ = strconv.Atoi(f[4])
	e.Off, _ = strconv.ParseInt(f[5], 10, 64)
	e.Path, e.Path2 = unesc(f[6]), unesc(f[7])
	abs := func(s string) string {
		if s == "" || filepath.IsAbs(s) {
			return s
		}
		return filepath.Join(p.Spec.Cwd, s)
	}
	switch e.Op {
	case "openat", "stat", "unlink", "mkdir", "truncate", "chmod":
		e.Path = abs(e.Path)
	case "rename", "link":
		e.Path, e.Path2 = abs(e.Path), abs(e.Path2)
	case "symlink":
		e.Path2 = abs(e.Path2)
	default:
		if e.Path == "" {
			e.Path = p.fds[e.Fd]
		}
	}
	return e
}

// ambient decides kernel-legal variations for an event that is about to run.
func (w *World) ambient(p *Proc, e *Ev) string {
	a := &w.Amb
	if a.rng == nil {
		return "go"
	}
	switch e.Op {
	case "read":
		if e.Fd == 0 && e.Path == "" {
			if a.StdinChunk && e.Len > 1 {
				w.Count.Inc("fault.stdin_chunk")
				return fmt.Sprintf("short:%d", 1+a.rng.Intn(min(e.Len, 37)))
			}
			return "go"
		}
		if a.ShortReadDen > 0 && e.Len > 1 && a.rng.Chance(1, a.ShortReadDen) {
			w.Count.Inc("fault.short_read")
			return fmt.Sprintf("short:%d", 1+a.rng.Intn(min(e.Len, 4096)-1))
		}
	case "write":
		if a.ShortWriteDen > 0 && e.Len > 1 && e.Fd > 2 && a.rng.Chance(1, a.ShortWriteDen) {
			w.Count.Inc("fault.short_write")
			return fmt.Sprintf("short:%d", 1+a.rng.Intn(e.Len-1))
		}
	}
	return "go"
}

func actReply(act string) string {
	switch {
	case act == "go" || act == "":
		return "G"
	case strings.HasPrefix(act, "err:"):
		return "E " + act[4:]
	case strings.HasPrefix(act, "short:"):
		return "S " + act[6:]
	case strings.HasPrefix(act, "torn:"):
		return "T " + act[5:]
	}
	harnessf("unknown action %q", act)
	return ""
}

// advance reads messages from p until it parks at a visible event or exits.
func (w *World) advance(p *Proc) {
	for {
		line, ok := w.readLine(p)
		if !ok {
			w.reap(p)
			return
		}
		if line == "" {
			harnessf("empty control line from p%d", p.Idx)
		}
		switch line[0] {
		case 'N':
			v := w.Clock.Next()
			p.NowVals = append(p.NowVals, v)
			w.note("now p%d %d", p.Idx, v)
			w.reply(p, strconv.FormatInt(v, 10))
		case 'X':
			n, _ := strconv.Atoi(strings.TrimSpace(line[1:]))
			b := w.Rand.Read(n)
			w.note("rand p%d %x", p.Idx, b)
			w.reply(p, hex.EncodeToString(b))
		case 'R':
			e := p.cur
			if e == nil {
				harnessf("POST without PRE from p%d: %q", p.Idx, line)
			}
			f := strings.Split(line, " ")
			e.Res, _ = strconv.Atoi(f[1])
			e.Errno, _ = strconv.Atoi(f[2])
			e.Posted = true
			w.Seq++
			e.PostSeq = w.Seq
			w.post(p, e)
			p.cur = nil
		case 'Q':
			e := p.cur
			n, _ := strconv.Atoi(strings.TrimSpace(line[1:]))
			if e != nil {
				e.Res, e.Posted = n, true
			}
			w.note("torn p%d wrote %d", p.Idx, n)
			p.TornKilled = true
			p.State = psKilled
			p.cmd.Process.Kill()
			w.reap(p)
			w.Count.Inc("fault.torn")
			return
		case 'P':
			e := w.parsePre(p, line)
			w.Seq++
			e.Seq = w.Seq
			e.Visible = w.isVisible(e)
			p.Events = append(p.Events, e)
			if e.Visible {
				e.K = p.NVis
				p.NVis++
				p.Pend = e
				p.State = psParked
				return
			}
			if w.killAtStdout && e.Op == "write" && e.Fd == 1 {
				w.note("kill p%d at reply", p.Idx)
				p.State = psKilled
				p.cmd.Process.Kill()
				w.reap(p)
				w.Count.Inc("fault.kill")
				return
			}
			e.Act = w.ambient(p, e)
			p.cur = e
			w.reply(p, actReply(e.Act))
		default:
			harnessf("unknown control line from p%d: %q", p.Idx, line)
		}
	}
}

func (w *World) post(p *Proc, e *Ev) {
	switch e.Op {
	case "openat":
		if e.Errno == 0 && e.Res >= 0 {
			p.fds[e.Res] = e.Path
		}
	case "close":
		if e.Errno == 0 {
			path := p.fds[e.Fd]
			delete(p.fds, e.Fd)
			if hs := w.holders[path]; hs != nil {
				if fd, ok := hs[p]; ok && fd == e.Fd {
					delete(hs, p)
					if len(hs) == 0 {
						delete(w.holders, path)
					}
				}
			}
		}
	case "flock":
		path := e.Path
		if e.Flags&syscall.LOCK_UN != 0 {
			if hs := w.holders[path]; hs != nil {
				delete(hs, p)
				if len(hs) == 0 {
					delete(w.holders, path)
				}
			}
		} else if e.Res == -2 {
			p.BlockedOnLock = path
			w.Blocks++
			w.Count.Inc("probe.blocking_lock_wait")
		} else if e.Errno == 0 {
			if w.holders[path] == nil {
				w.holders[path] = map[*Proc]int{}
			}
			w.holders[path][p] = e.Fd
			p.BlockedOnLock = ""
		} else if e.Errno == int(syscall.EWOULDBLOCK) {
			w.Count.Inc("probe.lock_busy_seen")
		}
	}
	if e.Visible {
		w.note("ev %s", w.evLine(e))
	}
	if w.OnPost != nil && e.Visible {
		w.OnPost(w, p, e)
	}
}

func (w *World) evLine(e *Ev) string {
	return fmt.Sprintf("p%d#%d %s fd=%d fl=%d len=%d off=%d %s %s [%s] = %d/%d", e.Proc, e.K, e.Op, e.Fd, e.Flags, e.Len, e.Off, w.rel(e.Path), w.rel(e.Path2), e.Act, e.Res, e.Errno)
}

// Runnable reports whether a parked process may take its next step.
func (w *World) Runnable(p *Proc) bool {
	if p.State != psParked || p.Pend == nil {
		return false
	}
	if p.BlockedOnLock != "" && p.Pend.Op == "flock" {
		return w.lockFree(p.BlockedOnLock, p)
	}
	return true
}

// Step releases p's parked event with the given verdict and advances p to its
// next visible event (or exit).
func (w *World) Step(p *Proc, act string) {
	e := p.Pend
	if e == nil {
		harnessf("Step on p%d without a parked event", p.Idx)
	}
	if act == "" {
		act = "go"
	}
	if act == "go" {
		act = w.ambient(p, e)
	}
	if act == "kill" {
		w.Kill(p)
		return
	}
	if w.lastRun != p.Idx {
		w.IlvHash.Write([]byte(p.Spec.Label + ":" + opClass(e) + ";"))
		w.Count.Inc("sched.context_switches")
		w.lastRun = p.Idx
	}
	e.Act = act
	if strings.HasPrefix(act, "err:") {
		w.Count.Inc("fault.errno." + e.Op)
	}
	p.Pend = nil
	p.cur = e
	p.State = psRunning
	w.reply(p, actReply(act))
	w.advance(p)
}

func opClass(e *Ev) string {
	b := filepath.Base(e.Path)
	switch {
	case b == "lock":
		return e.Op + "@lock"
	case strings.HasSuffix(b, ".tmp"):
		return e.Op + "@tmp"
	case strings.HasSuffix(b, ".jsonl"):
		return e.Op + "@log"
	}
	return e.Op
}

// ---------------------------------------------------------------- schedulers

// A Scheduler picks the next process among the runnable ones. Every choice is
// recorded so that a run is a pure function of the decision list.
type Scheduler interface {
	// Pick returns an index into runnable.
	Pick(w *World, procs []*Proc, runnable []int) int
}

type seqSched struct{}

func (seqSched) Pick(w *World, procs []*Proc, runnable []int) int { return 0 }

// serialSched: the processes run one after another, each to its end, in a
// seeded order (no overlap: nobody meets a busy lock).
type serialSched struct {
	rng  *SplitMix
	rank map[int]int
}

func (s *serialSched) Pick(w *World, procs []*Proc, runnable []int) int {
	if s.rank == nil {
		s.rank = map[int]int{}
		perm := make([]int, len(procs))
		for i := range perm {
			perm[i] = i
		}
		for i := len(perm) - 1; i > 0; i-- {
			j := s.rng.Intn(i + 1)
			perm[i], perm[j] = perm[j], perm[i]
		}
		for pos, p := range perm {
			s.rank[p] = pos
		}
	}
	best := 0
	for i, r := range runnable {
		if s.rank[r] < s.rank[runnable[best]] {
			best = i
		}
	}
	return best
}

type randSched struct{ rng *SplitMix }

func (s randSched) Pick(w *World, procs []*Proc, runnable []int) int {
	return s.rng.Intn(len(runnable))
}

// stickySched keeps running the same process with probability (den-1)/den.
type stickySched struct {
	rng  *SplitMix
	den  int
	last int
}

func (s *stickySched) Pick(w *World, procs []*Proc, runnable []int) int {
	for i, r := range runnable {
		if r == s.last && !s.rng.Chance(1, s.den) {
			return i
		}
	}
	i := s.rng.Intn(len(runnable))
	s.last = runnable[i]
	return i
}

// replaySched replays recorded choices (proc indices); when the list runs out
// it keeps the current process running, else the lowest-numbered one.
type replaySched struct {
	dec  []int
	pos  int
	last int
}

func (s *replaySched) Pick(w *World, procs []*Proc, runnable []int) int {
	if s.pos < len(s.dec) {
		want := s.dec[s.pos]
		s.pos++
		for i, r := range runnable {
			if r == want {
				s.last = r
				return i
			}
		}
	}
	for i, r := range runnable {
		if r == s.last {
			return i
		}
	}
	s.last = runnable[0]
	return 0
}

// preemptSched: process A runs until its visible event number K is parked,
// then everybody else runs to completion (in the order given by inner), then
// A resumes. With Hold=true A is only resumed after all others have exited
// (same thing here, named for clarity of traces).
type preemptSched struct {
	A     int
	K     int
	inner Scheduler
}

func (s *preemptSched) Pick(w *World, procs []*Proc, runnable []int) int {
	ai := -1
	var others []int
	var otherPos []int
	for i, r := range runnable {
		if r == s.A {
			ai = i
		} else {
			others = append(others, r)
			otherPos = append(otherPos, i)
		}
	}
	if ai >= 0 && (procs[s.A].State == psNew || procs[s.A].Pend != nil && procs[s.A].Pend.K < s.K) {
		return ai // A runs (is started, then stepped) until its K-th visible call is parked
	}
	if len(others) > 0 {
		j := s.inner.Pick(w, procs, others)
		return otherPos[j]
	}
	return ai
}

// Fault addresses a verdict for one visible event of one process.
type Fault struct {
	Proc int    `json:"proc"`
	K    int    `json:"k"`              // visible-event ordinal of that process
	Act  string `json:"act"`            // kill | torn:N | short:N | err:N
	Op   string `json:"op"`             // informational: the op expected there
	Note string `json:"note"`           // informational
	Then *Fault `json:"then,omitempty"` // a second fault of the same process (e.g. a short write followed by ENOSPC on the rest)
}

type BatchResult struct {
	Procs     []*Proc
	Decisions []int
	Deadlock  bool
}

// RunBatch runs the given processes concurrently under sched until all have
// exited (or been killed). stall lists processes that are never scheduled
// beyond the given visible ordinal until everybody else is finished.
func (w *World) RunBatch(specs []ProcSpec, sched Scheduler, faults []Fault) *BatchResult {
	res := &BatchResult{}
	fmap := map[[2]int]Fault{}
	for _, f := range faults {
		fmap[[2]int{f.Proc, f.K}] = f
	}
	for i, s := range specs {
		res.Procs = append(res.Procs, w.Start(i, s))
	}
	steps := 0
	for {
		var runnable []int
		alive := 0
		for i, p := range res.Procs {
			if p.Alive() {
				alive++
			}
			if w.Runnable(p) {
				runnable = append(runnable, i)
			}
		}
		if len(runnable) == 0 {
			if alive > 0 {
				// everybody left is waiting for a lock nobody will release
				res.Deadlock = true
				for _, p := range res.Procs {
					if p.Alive() {
						w.Kill(p)
					}
				}
			}
			break
		}
		pi := runnable[0]
		if len(runnable) > 1 {
			pi = runnable[sched.Pick(w, res.Procs, runnable)]
			w.Count.Inc("sched.decisions")
		}
		res.Decisions = append(res.Decisions, pi)
		p := res.Procs[pi]
		act := "go"
		if f, ok := fmap[[2]int{pi, p.Pend.K}]; ok && (f.Op == "" || f.Op == p.Pend.Op || !strings.HasPrefix(f.Act, "err:")) {
			act = f.Act
		} else if w.Rule != nil {
			if a, ok := w.Rule(p, p.Pend); ok {
				act = a
			}
		}
		w.Step(p, act)
		steps++
		if steps > 200000 {
			harnessf("batch exceeded 200000 steps")
		}
	}
	return res
}

// RunOne runs a single command to completion with no faults.
func (w *World) RunOne(spec ProcSpec) *Proc {
	r := w.RunBatch([]ProcSpec{spec}, seqSched{}, nil)
	return r.Procs[0]
}

// RunPlain runs the binary outside the simulation (interposer dormant): used
// for observation at quiescence where no scheduling or clock is involved.
func (w *World) RunPlain(argv []string, stdin []byte, cwd string) (stdout, stderr []byte, code int) {
	cmd := exec.Command(w.Bin, argv...)
	cmd.Dir = cwd
	cmd.Env = []string{"HOME=/nonexistent", "PATH=/usr/bin:/bin", "GOMAXPROCS=" + w.GoMax, "PWD=" + cwd, "TERM=dumb", "COLUMNS=100"}
	if stdin != nil {
		cmd.Stdin = bytes.NewReader(stdin)
	}
	var ob, eb bytes.Buffer
	cmd.Stdout, cmd.Stderr = &ob, &eb
	done := make(chan error, 1)
	if err := cmd.Start(); err != nil {
		harnessf("start: %v", err)
	}
	go func() { done <- cmd.Wait() }()
	select {
	case err := <-done:
		if err != nil {
			if ee, ok := err.(*exec.ExitError); ok {
				ws := ee.Sys().(syscall.WaitStatus)
				if ws.Signaled() {
					code = 128 + int(ws.Signal())
				} else {
					code = ws.ExitStatus()
				}
			} else {
				harnessf("wait: %v", err)
			}
		}
	case <-time.After(60 * time.Second):
		// 60 s of wall time: a hang only if the process really consumed CPU
		cpu := cpuSeconds(cmd.Process.Pid)
		if cpu < spinCPU {
			select {
			case <-done:
				harnessf("observation process %v needed more than 60 s with %.1fs CPU: starved machine", argv, cpu)
			case <-time.After(240 * time.Second):
			}
			cpu = cpuSeconds(cmd.Process.Pid)
		}
		cmd.Process.Kill()
		<-done
		if cpu < spinCPU {
			harnessf("observation process %v silent for 5 min with %.1fs CPU", argv, cpu)
		}
		code = -1
	}
	w.Count.Inc("procs.plain")
	return ob.Bytes(), eb.Bytes(), code
}

// preempt2Sched: two preemptions. A runs to its K-th visible call; then B runs
// to its KB-th visible call (typically: just after B acquired the lock) and
// is parked there; A resumes and runs to its end; then everybody else. This
// is the schedule that exposes "check / act / re-check" windows which need a
// competitor to HOLD something while the first process continues.
type preempt2Sched struct {
	A, K  int
	B, KB int
	inner Scheduler
}

func (s *preempt2Sched) Pick(w *World, procs []*Proc, runnable []int) int {
	pos := func(p int) int {
		for i, r := range runnable {
			if r == p {
				return i
			}
		}
		return -1
	}
	before := func(p, k int) bool {
		return procs[p].State == psNew || procs[p].Pend != nil && procs[p].Pend.K < k
	}
	ai, bi := pos(s.A), pos(s.B)
	if ai >= 0 && before(s.A, s.K) {
		return ai
	}
	if bi >= 0 && before(s.B, s.KB) {
		return bi
	}
	if ai >= 0 {
		return ai
	}
	if bi >= 0 {
		return bi
	}
	return s.inner.Pick(w, procs, runnable)
}
